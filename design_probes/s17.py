"""probe: path exploration of the real u_to_euler/_arctan2 on U=R(q); per-path obligations to z3"""
import sys, time, z3
from fractions import Fraction
from eng3 import *
import eng3
import xfab; xfab.CHECKS.activated = False
from xfab import tools

# ---------- z3 lowering
ZV = {}
def zvar(n):
    if n not in ZV: ZV[n] = z3.Real(n)
    return ZV[n]
def pz(p):
    terms = []
    for m, c in p.items():
        t = z3.RealVal(str(Fraction(int(c.numerator), int(c.denominator))))
        for i, e in enumerate(m):
            for _ in range(e): t = t * zvar(eng3.F.names[i])
        terms.append(t)
    return z3.Sum(terms) if terms else z3.RealVal(0)
def qz(q):
    q = lift(q)
    return pz(q.n) / pz(q.d) if q.d != 1 else pz(q.n)
def relations():
    cs = []
    for i, rep in eng3.F.rel.items():
        g = zvar(eng3.F.names[i]); cs.append(g * g == pz(rep))
    for n in eng3.F.positive: cs.append(zvar(n) >= 0)
    return cs

# ---------- explorer
class Abort(Exception): pass
class Ex:
    def __init__(self, base): self.base = base; self.nq = 0
    def run(self, fn):
        work = [[]]; leaves = []
        while work:
            self.prefix = work.pop(); self.pos = 0; self.trace = []; self.pc = []; self.work = work
            try: res = fn()
            except Abort: continue
            except ValueError as e: res = ('ValueError', str(e))
            leaves.append((list(self.trace), list(self.pc), res))
        return leaves
    def feasible(self, extra):
        s = z3.Solver(); s.set('timeout', 3000); s.add(self.base + relations() + self.pc + [extra]); self.nq += 1
        return s.check() != z3.unsat
    def decide(self, cond):
        if self.pos < len(self.prefix): d = self.prefix[self.pos]
        else:
            ft = self.feasible(cond); ff = self.feasible(z3.Not(cond))
            if ft and ff: self.work.append(self.trace + [False]); d = True
            elif ft: d = True
            elif ff: d = False
            else: raise Abort()
        self.pos += 1; self.trace.append(d); self.pc.append(cond if d else z3.Not(cond)); return d
EX = None
class SB:
    def __init__(s, c): s.c = c
    def __bool__(s): return EX.decide(s.c)
def cmpq(op):
    def f(s, o):
        a, b = qz(s), qz(o) if not isinstance(o, (int, float)) else z3.RealVal(str(Fraction(str(o))))
        return SB({'lt': a < b, 'le': a <= b, 'gt': a > b, 'ge': a >= b}[op])
    return f
Q.__lt__ = cmpq('lt'); Q.__le__ = cmpq('le'); Q.__gt__ = cmpq('gt'); Q.__ge__ = cmpq('ge')
def qabs(s): return s if bool(s >= 0) else -s
Q.__abs__ = qabs
def qeq(s, o):
    if isinstance(o, (int, float)) and o == 0 and s.iszero(): return True
    return bool(SB(qz(s) == qz(o)))
Q.__eq__ = qeq; Q.__hash__ = lambda s: 0
PI = lambda: Q(eng3.F.g['pi'], eng3.F.R.one)
COS_TOL = Fraction(1) - Fraction(5, 10**17)     # cos(1e-8) to 1e-33
class Ang:
    """value in window [lo,hi] (units of pi, Fractions), known by (c,s)"""
    def __init__(s, c, sn, lo, hi): s.c, s.s, s.lo, s.hi = lift(c), lift(sn), Fraction(lo), Fraction(hi)
    def cos(s): return s.c
    def sin(s): return s.s
    def __sub__(s, o):
        assert isinstance(o, Q) and o.n == eng3.F.g['pi'] and o.d == 1
        return Ang(-s.c, -s.s, s.lo - 1, s.hi - 1)
    def __add__(s, o):
        if isinstance(o, Q) and o.n == eng3.F.g['pi'] and o.d == 1: return Ang(-s.c, -s.s, s.lo + 1, s.hi + 1)
        if isinstance(o, Q) and o.n == 2 * eng3.F.g['pi'] and o.d == 1: return Ang(s.c, s.s, s.lo + 2, s.hi + 2)
        raise TypeError(o)
    def __abs__(s):
        if s.lo >= 0: return s
        if s.hi <= 0: return Ang(s.c, -s.s, -s.hi, -s.lo)
        raise TypeError('abs of mixed-sign window')
    def __lt__(s, o):
        if o == 0:
            if s.lo >= 0: return False
            if s.hi <= 0 and s.lo >= -1: return SB(z3.Or(qz(s.s) < 0, z3.And(qz(s.s) == 0, qz(s.c) < 0)))  # in [-pi,0]: <0 unless exactly 0
            if s.lo >= -1 and s.hi <= 1: return SB(qz(s.s) < 0)
            if s.hi < 0: return True
            raise TypeError('window')
        if o == 1e-8 and s.lo >= 0 and s.hi <= 1:   # monotone cos on [0,pi]
            return SB(qz(s.c) > z3.RealVal(str(COS_TOL)))
        raise TypeError(o)
def q_arccos(s): return Ang(s, (lift(1) - s * s).sqrt(), 0, 1)
def q_arctan(s):
    r = (lift(1) + s * s).sqrt()
    return Ang(lift(1) / r, s / r, Fraction(-1, 2), Fraction(1, 2))
Q.arccos = q_arccos; Q.arctan = q_arctan
class NP2(NP):
    def arctan(self, x):
        if isinstance(x, (int, float)): return Ang(1, 0, 0, 0) if x == 0 else None
        return x.arctan()
    def _pimul(self, x):
        # Q equal to k*pi/2 ?
        pi = eng3.F.g['pi']
        if isinstance(x, Q) and x.d.is_ground:
            q, r = divmod(x.n, pi)
            if r == 0 and q.is_ground:
                k2 = Fraction(int(q.LC.numerator), int(q.LC.denominator)) * 2 / Fraction(int(x.d.LC.numerator), int(x.d.LC.denominator))
                if k2.denominator == 1: return int(k2) % 4
        return None
    def cos(self, x):
        if isinstance(x, (int, float)) and x == 0: return 1
        k = self._pimul(x)
        if k is not None: return [1, 0, -1, 0][k]
        if isinstance(x, Q): raise RuntimeError('cos of Q %r' % x)
        return x.cos()
    def sin(self, x):
        if isinstance(x, (int, float)) and x == 0: return 0
        k = self._pimul(x)
        if k is not None: return [0, 1, 0, -1][k]
        return x.sin()
    def abs(self, x): return abs(x)
    def arccos(self, x): return x.arccos()
tools.n = NP2()

names = ['c1', 's1', 'cP', 'sP', 'c2', 's2', 'pi']
f = Field(names, positive=('pi', 'sP'), naux=6); setfield(f)
for cn, sn in (('c1', 's1'), ('cP', 'sP'), ('c2', 's2')): f.relation(sn, 1 - f.g[cn]**2)
v = lambda n: Q(f.g[n], f.R.one)
c1, s1, cP, sP, c2, s2 = [v(n) for n in names[:6]]
def mat(rows): return np.array(rows, dtype=object)
Rz = lambda c, s: mat([[c, -s, 0], [s, c, 0], [0, 0, 1]])
Rx = lambda c, s: mat([[1, 0, 0], [0, c, -s], [0, s, c]])
U = np.dot(Rz(c1, s1), np.dot(Rx(cP, sP), Rz(c2, s2)))
for i in range(3):
    for j in range(3): U[i, j] = lift(U[i, j])
base = [zvar('pi') > z3.RealVal('3.14159265358979'), zvar('pi') < z3.RealVal('3.14159265358980')]
EX = Ex(base)
def harness():
    e = tools.u_to_euler(U)
    U2 = tools.euler_to_u(*e)
    return e, U2
t0 = time.time()
leaves = EX.run(harness)
import sys; print('paths', len(leaves), 'feasibility queries', EX.nq, 'wall %.1fs' % (time.time() - t0), 'aux', f.auxdef and {k: str(x)[:60] for k, x in f.auxdef.items()}, flush=True)
tol = z3.RealVal('1e-6')
import collections; summary=collections.Counter()
for k, (trace, pc, res) in enumerate(leaves[:int(sys.argv[1])]):
    if isinstance(res, tuple) and isinstance(res[0], str):
        print(k, trace, 'raises', res[1]); continue
    e, U2 = res
    resid = [lift(U2[i, j]) - U[i, j] for i in range(3) for j in range(3)]
    nz = sum(1 for r in resid if not r.iszero())
    verdict = 'all residuals ZERO'
    if nz:
        s = z3.Solver(); s.set('timeout', 15000); s.add(base + relations() + pc)
        s.add(z3.Or([z3.Or(qz(r) > tol, qz(r) < -tol) for r in resid if not r.iszero()]))
        t = time.time(); r = s.check(); verdict = '%d nonzero residuals -> exceed 1e-6? %s (%.1fs)' % (nz, r, time.time() - t)
        if r == z3.sat:
            m = s.model(); verdict += ' q=' + str([m.eval(zvar(n)).as_decimal(10) for n in names[:6]])
    print(k, ''.join('T' if d else 'F' for d in trace), 'windows', [(str(a.lo), str(a.hi)) if isinstance(a, Ang) else str(a)[:12] for a in e], verdict, flush=True)
