import sys; sys.path.insert(0,'/repo')
import numpy as np, itertools
from fractions import Fraction as Fr
from xfab import tools, sg
import logging; logging.disable(logging.CRITICAL)
rng=np.random.default_rng(3)
def snap(v):
    f=Fr(float(v)).limit_denominator(24); assert abs(float(f)-v)<2e-6,(v,f); return f
def extinct(g,h):
    for R,t in zip(g.rot,g.trans):
        R=np.array(R,int)
        if tuple(np.dot(h,R))==tuple(h):
            ph=sum(int(h[i])*snap(t[i]) for i in range(3))
            if ph.denominator!=1: return True
    return False
def conf_cell(cs,cc):
    a,b,c=rng.uniform(3,9,3); al,be,ga=rng.uniform(70,115,3)
    if cs=='triclinic': return [a,b,c,al,be,ga]
    if cs=='monoclinic': return [a,b,c,90,be,90]
    if cs=='orthorhombic': return [a,b,c,90,90,90]
    if cs=='tetragonal': return [a,a,c,90,90,90]
    if cs in('trigonal','hexagonal'):
        if cc=='rhombohedral': return [a,a,a,al,al,al]
        return [a,a,c,90,90,120]
    if cs=='cubic': return [a,a,a,90,90,90]
bad={}
for no in range(1,231):
    for cc in ('standard','rhombohedral'):
        if cc=='rhombohedral' and no not in (146,148,155,160,161,166,167): continue
        g=sg.sg(sgno=no,cell_choice=cc)
        for trial in range(2):
            cell=conf_cell(g.crystal_system,cc)
            smax=rng.uniform(0.25,0.45); smin=rng.uniform(0,0.15)
            H=tools.genhkl_all(cell,smin,smax,sgno=no,cell_choice=cc)
            got=[tuple(int(round(x)) for x in r) for r in H]
            N=8
            exp=set()
            for h in itertools.product(range(-N,N+1),repeat=3):
                if h==(0,0,0):continue
                s=tools.sintl(cell,h)
                if smin<s<=smax and not extinct(g,h): exp.add(h)
            gs=set(got)
            if gs!=exp or len(gs)!=len(got):
                bad.setdefault((no,cc,g.name,g.Laue),[]).append((len(exp-gs),len(gs-exp),len(got)-len(gs),sorted(exp-gs)[:3],sorted(gs-exp)[:3]))
print(len(bad))
for k,v in bad.items(): print(k,v[:2])
