import sys; sys.path.insert(0,'/repo')
import numpy as np, itertools, os, tempfile
from xfab import tools, sg, structure, atomlib, parameters
import logging; logging.disable(logging.CRITICAL)
rng=np.random.default_rng(8)
def atom(pos,adp_type,adp,occ,t,m): return structure.atom_entry(label='x',atomtype=t,pos=pos,adp_type=adp_type,adp=adp,occ=occ,symmulti=m)
def F(hkl,cell,sgname,atoms,disp=None):
    r=structure.StructureFactor(np.array(hkl),cell,sgname,atoms,disp); return complex(r[0],r[1])
def explicit(hkl,cell,g,atoms,disp):
    s=tools.sintl(cell,hkl); tot=0
    cs=tools.cell_invert(cell)
    for a in atoms:
        f=structure.FormFactor(a.atomtype,s); fp,fpp=(disp[a.atomtype] if disp and disp[a.atomtype] else (0,0))
        for R,t in zip(g.rot,g.trans):
            r=R@np.array(a.pos)+t
            if a.adp_type=='Uiso': dw=np.exp(-8*np.pi**2*a.adp*s*s)
            elif a.adp_type=='Uani':
                U=np.array([[a.adp[0],a.adp[5],a.adp[4]],[a.adp[5],a.adp[1],a.adp[3]],[a.adp[4],a.adp[3],a.adp[2]]])
                beta=2*np.pi**2*np.outer(cs[:3],cs[:3])*U
                h2=np.array(hkl)@R
                dw=np.exp(-h2@beta@h2)
            else: dw=1
            tot+=a.occ*a.symmulti/g.nsymop*(f+fp+1j*fpp)*dw*np.exp(2j*np.pi*np.dot(hkl,r))
    return tot
for sgname,cell in (('P21/c',[5,6,7,90,100,90]),('P3',[5,5,7,90,90,120]),('Fd-3m',[5,5,5,90,90,90]),('P-1',[5,6,7,80,95,100])):
    g=sg.sg(sgname=sgname)
    for adpt in ('Uiso','Uani',None):
        adp={'Uiso':0.02,'Uani':[0.02,0.03,0.025,0.004,-0.003,0.006],None:None}[adpt]
        at=[atom(rng.uniform(0,1,3),adpt,adp,0.7,'FE',g.nsymop),atom(rng.uniform(0,1,3),adpt,adp,1.0,'O',g.nsymop)]
        disp={'FE':[0.3,0.8],'O':None}
        w=0; wt=0
        for hkl in itertools.product(range(-2,3),repeat=3):
            w=max(w,abs(F(hkl,cell,sgname,at,disp)-explicit(hkl,cell,g,at,disp)))
            at2=[atom(at[0].pos+np.array([1,-2,3]),adpt,adp,0.7,'FE',g.nsymop),at[1]]
            wt=max(wt,abs(F(hkl,cell,sgname,at2,disp)-F(hkl,cell,sgname,at,disp)))
        print(sgname,adpt,'explicit diff',w,'transl',wt)
    # Uiso vs equivalent Uani
    u=0.02; cs=tools.cell_invert(cell); 
    Gs=np.linalg.inv(tools.form_a_mat(cell).T@tools.form_a_mat(cell))
    Ue=u*Gs/np.outer(cs[:3],cs[:3])
    adp=[Ue[0,0],Ue[1,1],Ue[2,2],Ue[1,2],Ue[0,2],Ue[0,1]]
    p=rng.uniform(0,1,3)
    w=max(abs(F(h,cell,sgname,[atom(p,'Uiso',u,1,'C',g.nsymop)])-F(h,cell,sgname,[atom(p,'Uani',adp,1,'C',g.nsymop)])) for h in itertools.product(range(-2,3),repeat=3))
    print(sgname,'iso vs aniso-equivalent',w)
# C19
p=parameters.parameters(a=1,b=2.5,c='hello',d_e=3)
fn=tempfile.mktemp(); p.saveparameters(fn); q=parameters.read_par_file(fn); print(q.get_parameters(), open(fn).read()); os.remove(fn)
p=parameters.parameters(); p.addpar(parameters.par('x',0.1+0.2,vary=True,can_vary=True,stepsize=0.1)); p.addpar(parameters.par('y-z',7)); 
fn=tempfile.mktemp(); p.saveparameters(fn); q=parameters.read_par_file(fn); print(q.get_parameters(), q.get('x')==0.1+0.2); os.remove(fn)
