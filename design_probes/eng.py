"""throwaway probe: run real xfab code on symbolic objects through real numpy (object dtype)"""
import sys; sys.path.insert(0,'/repo')
import numpy as np, z3, math, types
class Fork(Exception): pass
class Ctx:
    def __init__(self): self.aux=[]; self.n=0; self.pc=[]; self.decisions=[]; self.pos=0
    def fresh(self,p='t'): self.n+=1; return z3.Real('%s%d'%(p,self.n))
CTX=Ctx()
def lift(x):
    if isinstance(x,Sym): return x.e
    if isinstance(x,(int,np.integer)): return z3.RealVal(int(x))
    if isinstance(x,(float,np.floating)):
        from fractions import Fraction
        f=Fraction(float(x)); return z3.RealVal(f.numerator)/z3.RealVal(f.denominator) if f.denominator!=1 else z3.RealVal(f.numerator)
    raise TypeError(type(x))
class Sym:
    __array_priority__=1000
    def __init__(self,e): self.e=e
    def __add__(s,o): return Sym(s.e+lift(o))
    __radd__=__add__
    def __sub__(s,o): return Sym(s.e-lift(o))
    def __rsub__(s,o): return Sym(lift(o)-s.e)
    def __mul__(s,o):
        if isinstance(o,np.ndarray): return NotImplemented
        return Sym(s.e*lift(o))
    __rmul__=__mul__
    def __truediv__(s,o): return Sym(s.e/lift(o))
    def __rtruediv__(s,o): return Sym(lift(o)/s.e)
    def __neg__(s): return Sym(-s.e)
    def __pow__(s,k):
        assert isinstance(k,int) and k>=1
        r=s.e
        for _ in range(k-1): r=r*s.e
        return Sym(r)
    def sqrt(s):
        v=CTX.fresh('sq'); CTX.aux += [v>=0, v*v==s.e]; return Sym(v)
    def __lt__(s,o): return SymBool(s.e<lift(o))
    def __le__(s,o): return SymBool(s.e<=lift(o))
    def __gt__(s,o): return SymBool(s.e>lift(o))
    def __ge__(s,o): return SymBool(s.e>=lift(o))
class SymBool:
    def __init__(self,b): self.b=b
    def __bool__(self):
        c=CTX
        if c.pos<len(c.decisions): d=c.decisions[c.pos]
        else: d=True; c.decisions.append(d)
        c.pos+=1
        c.pc.append(self.b if d else z3.Not(self.b)); return d
PI=Sym(z3.Real('pi'))
class Angle:
    """degrees or radians value known only via (cos,sin)"""
    def __init__(self,c,s,unit='rad'): self.c=c; self.s=s; self.unit=unit
    def __mul__(self,o):
        # deg * pi -> marker
        if o is PI and self.unit=='deg': return Angle(self.c,self.s,'deg*pi')
        raise TypeError
    def __truediv__(self,o):
        if self.unit=='deg*pi' and o==180.: return Angle(self.c,self.s,'rad')
        raise TypeError
    def cos(self): assert self.unit=='rad'; return self.c
    def sin(self): assert self.unit=='rad'; return self.s
class SymNP:
    pi=PI
    def __getattr__(self,name): return getattr(np,name)
    def zeros(self,shape,dtype=None):
        a=np.empty(shape,dtype=object); a.fill(0); return a
symnp=SymNP()
def run(mod,fname,*args):
    f=getattr(mod,fname)
    return f(*args)
if __name__=='__main__':
    import time
    from xfab import tools
    tools.n=symnp
    a,b,c=[Sym(z3.Real(x)) for x in 'abc']
    angs=[Angle(Sym(z3.Real('c'+x)),Sym(z3.Real('s'+x)),'deg') for x in ('al','be','ga')]
    cell=[a,b,c]+angs
    B=tools.form_b_mat(cell); A=tools.form_a_mat(cell); V=tools.cell_volume(cell)
    print(type(B),B.dtype,B.shape); print(B[1,2].e)
    pre=[x.e>0 for x in (a,b,c)]+[g.s.e>0 for g in angs]+[g.c.e*g.c.e+g.s.e*g.s.e==1 for g in angs]+[PI.e>3.14159,PI.e<3.1416]
    ca,cb,cg=[g.c.e for g in angs]
    pre.append(1-ca*ca-cb*cb-cg*cg+2*ca*cb*cg>=z3.RealVal('0.02'))
    G=np.array([[a*a,a*b*angs[2].c,a*c*angs[1].c],[a*b*angs[2].c,b*b,b*c*angs[0].c],[a*c*angs[1].c,b*c*angs[0].c,c*c]],dtype=object)
    AtA=np.dot(A.T,A)
    for i in range(3):
        for j in range(3):
            s=z3.Solver(); s.set('timeout',20000); s.add(pre+CTX.aux); s.add(lift(AtA[i,j])!=lift(G[i,j])); t=time.time(); print('AtA',i,j,s.check(),round(time.time()-t,2))
