import sys; sys.path.insert(0,'/repo')
import numpy as np
from xfab import tools, laue, structure, atomlib, symmetry, detector
np.random.seed(1)
# C13
cell=[3.,4.,5.,80.,95.,100.]
eps=[0.01,0.002,-0.003,0.004,0.005,-0.006]
for m in (tools,laue):
    B=m.epsilon_to_b(eps,cell)
    U=m.euler_to_u(0.3,0.4,0.5)
    ubi = np.linalg.inv(U@B)*(2*np.pi if m is tools else 1)
    u,e=m.ubi_to_u_and_eps(ubi,cell)
    print(m.__name__,'U err',abs(u-U).max(),'eps',np.round(e,4))
    print(' b_to_eps rt', np.abs(np.array(m.b_to_epsilon(B,cell))-eps).max(), 'old', np.abs(np.array(m.b_to_epsilon_old(m.epsilon_to_b_old(eps,cell),cell))-eps).max())
# C18
for cell in ([3.,4.,5.,80.,95.,100.],[4,4,4,60,60,60],[9.07599708738,6.05007626616,44.33571511,97.838350766558762,90.0,90.0]):
    r=tools.reduce_cell(cell)
    print('reduce',cell,'->',np.round(r,4),'V',tools.cell_volume(cell),tools.cell_volume(r))
# C16
Z={'H':1,'HE':2,'LI':3,'BE':4,'B':5,'C':6,'N':7,'O':8,'F':9,'NE':10,'NA':11,'MG':12,'AL':13,'SI':14,'P':15,'S':16,'CL':17,'AR':18,'K':19,'CA':20,'FE':26,'CU':29,'AU':79}
bad=[]
for k,v in atomlib.formfactor.items():
    f0=structure.FormFactor(k,0.0)
    if k in Z and abs(f0-Z[k])>0.1: bad.append((k,round(f0,3),Z[k]))
print('f0 bad',bad, len(atomlib.formfactor))
print(list(atomlib.formfactor.keys()))
