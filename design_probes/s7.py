import sys, time, z3
sys.path.insert(0,'/repo')
from xfab import sg
from fractions import Fraction as Fr
def snap(v):
    f=Fr(float(v)).limit_denominator(24); assert abs(float(f)-v)<2e-6; return int(f*24)%24
def closure(no,cc='standard'):
    g=sg.sg(sgno=no,cell_choice=cc)
    ops=[(tuple(int(x) for x in R.flatten()),tuple(snap(x) for x in t)) for R,t in zip(g.rot,g.trans)]
    s=z3.Solver()
    def member(Rv,tv):
        return z3.Or([z3.And([Rv[i]==o[0][i] for i in range(9)]+[tv[i]==o[1][i] for i in range(3)]) for o in ops])
    A=[z3.Int('a%d'%i) for i in range(9)]; ta=[z3.Int('ta%d'%i) for i in range(3)]
    B=[z3.Int('b%d'%i) for i in range(9)]; tb=[z3.Int('tb%d'%i) for i in range(3)]
    s.add(member(A,ta),member(B,tb))
    # composition x -> A(Bx+tb)+ta
    C=[sum(A[3*i+k]*B[3*k+j] for k in range(3)) for i in range(3) for j in range(3)]
    tc=[(sum(A[3*i+k]*tb[k] for k in range(3))+ta[i])%24 for i in range(3)]
    s.add(z3.Not(member(C,tc)))
    t=time.time(); r=s.check(); return len(ops),str(r),round(time.time()-t,2)
for no in (14,62,139,166,194,221,225,227,230):
    print(no,closure(no),flush=True)
# string probe: remove_esd
a=z3.String('a'); num=z3.String('num'); esd=z3.String('esd')
digits=z3.Plus(z3.Range('0','9'))
NUM=z3.Concat(z3.Option(z3.Union(z3.Re('-'),z3.Re('+'))),digits,z3.Option(z3.Concat(z3.Re('.'),z3.Star(z3.Range('0','9')))))
s=z3.Solver(); s.set('timeout',30000)
s.add(z3.InRe(num,NUM),z3.InRe(esd,digits),a==z3.Concat(num,z3.StringVal('('),esd,z3.StringVal(')')))
s.add(z3.Length(num)<=12,z3.Length(esd)<=4)
idx=z3.IndexOf(a,z3.StringVal('('),0)
res=z3.SubString(a,0,idx)
s.add(z3.Or(idx==-1,res!=num))
t=time.time(); print('remove_esd',s.check(),round(time.time()-t,2))
