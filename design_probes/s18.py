"""probe: real structure.multiplicity on symbolic position (linear real proxies), LIRA with to_int"""
import sys, time, z3; sys.path.insert(0,'/repo')
import numpy as np
from fractions import Fraction
from xfab import structure, sg
import logging; logging.disable(logging.CRITICAL)
class Abort(Exception): pass
class Ex:
    def __init__(self, base): self.base=base; self.nq=0; self.tq=0
    def run(self, fn, maxpaths=400):
        work=[[]]; leaves=[]
        while work and len(leaves)<maxpaths:
            self.prefix=work.pop(); self.pos=0; self.trace=[]; self.pc=[]; self.work=work
            self.s=z3.Solver(); self.s.set('timeout',5000); self.s.add(self.base)
            try: res=fn()
            except Abort: continue
            leaves.append((list(self.trace),list(self.pc),res))
        return leaves, len(work)
    def feas(self,c):
        t=time.time(); self.s.push(); self.s.add(c); r=self.s.check(); self.s.pop(); self.nq+=1; self.tq+=time.time()-t; return r!=z3.unsat
    def decide(self,cond):
        if self.pos<len(self.prefix): d=self.prefix[self.pos]
        else:
            ft=self.feas(cond); ff=self.feas(z3.Not(cond))
            if ft and ff: self.work.append(self.trace+[False]); d=True
            elif ft: d=True
            elif ff: d=False
            else: raise Abort()
        self.pos+=1; self.trace.append(d); c=cond if d else z3.Not(cond); self.pc.append(c); self.s.add(c); return d
EX=None
def snap(v):
    f=Fraction(float(v)).limit_denominator(24); assert abs(float(f)-float(v))<2e-6; return f
def L(o):
    if isinstance(o,Lin): return o.e
    f=snap(o); return z3.RealVal(str(f))
class SB:
    def __init__(s,c): s.c=c
    def __bool__(s): return EX.decide(s.c)
class Lin:
    def __init__(s,e): s.e=e
    def __add__(s,o): return Lin(s.e+L(o)) if not isinstance(o,np.ndarray) else NotImplemented
    __radd__=__add__
    def __sub__(s,o): return Lin(s.e-L(o)) if not isinstance(o,np.ndarray) else NotImplemented
    def __rsub__(s,o): return Lin(L(o)-s.e)
    def __mul__(s,o):
        if isinstance(o,np.ndarray): return NotImplemented
        return Lin(s.e*L(o))
    __rmul__=__mul__
    def __lt__(s,o): return SB(s.e<z3.RealVal(str(Fraction(str(o)))))
    def mod1(s): return Lin(s.e-z3.ToReal(z3.ToInt(s.e)))
class NPS:
    def __getattr__(self,k): return getattr(np,k)
    def zeros(self,shape,dtype=None):
        a=np.empty(shape,dtype=object); a.fill(0); return a
    def mod(self,t,k):
        assert k==1; return np.array([x.mod1() if isinstance(x,Lin) else x%1 for x in t],dtype=object)
structure.n=NPS()
def run(no,cc,family):
    global EX
    g=sg.sg(sgno=no,cell_choice=cc)
    x,y,z=z3.Reals('x y z')
    pos={'general':[Lin(x),Lin(y),Lin(z)],'xxz':[Lin(x),Lin(x),Lin(z)],'x2xz':[Lin(x),Lin(2*x),Lin(z)],'x-xz':[Lin(x),Lin(-x),Lin(z)]}[family]
    base=[x>=0,x<1,y>=0,y<1,z>=0,z<1]
    EX=Ex(base)
    t0=time.time()
    leaves,left=EX.run(lambda: structure.multiplicity(np.array(pos,dtype=object),sgno=no,cell_choice=cc))
    # oracle per leaf: multi*|Stab|==nsymop with R.x+t convention
    P=[x,y,z] if family=='general' else {'xxz':[x,x,z],'x2xz':[x,2*x,z],'x-xz':[x,-x,z]}[family]
    stab=[]
    for R,t in zip(g.rot,g.trans):
        img=[sum(int(R[i][j])*P[j] for j in range(3))+z3.RealVal(str(snap(t[i])))-P[i] for i in range(3)]
        stab.append(z3.If(z3.And([d==z3.ToReal(z3.ToInt(d)) for d in img]),1,0))
    nst=z3.Sum(stab)
    viol=0; unk=0; ex=None
    for tr,pc,multi in leaves:
        s=z3.Solver(); s.set('timeout',10000); s.add(base+pc); s.add(multi*nst!=g.nsymop)
        r=s.check()
        if r==z3.sat:
            viol+=1
            if ex is None: m=s.model(); ex=(multi,[str(m.eval(v,model_completion=True)) for v in (x,y,z)])
        elif r==z3.unknown: unk+=1
    print(no,cc,g.name,family,'nsymop',g.nsymop,'paths',len(leaves),'unexplored',left,'queries',EX.nq,'solver %.1fs'%EX.tq,'wall %.1fs'%(time.time()-t0),'violating leaves',viol,'unknown',unk,'example',ex,flush=True)
for args in ((4,'standard','general'),(14,'standard','general'),(62,'standard','general'),(143,'standard','general'),(143,'standard','xxz'),(90,'standard','general'),(225,'standard','xxz')):
    run(*args)
