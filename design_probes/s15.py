import time, sys
from eng3 import *
import eng3
import xfab; xfab.CHECKS.activated=False
from xfab import tools
patch(tools)
f,cell,v=cellfield(extra=['w','x','y','z']+['e%d'%i for i in range(6)])
f.relation('w',1-f.g['x']**2-f.g['y']**2-f.g['z']**2)
def Z(q): return 'ZERO' if q.iszero() else repr(q)
def T(label,fn):
    t=time.time()
    try: r=fn()
    except Exception as e: r='EXC %r'%(e,)
    print(label,r,'[%.1fs, aux=%d]'%(time.time()-t,f.naux),flush=True)
A=tools.form_a_mat(cell); B=tools.form_b_mat(cell)
print('aux after A,B:',{k:str(v_) for k,v_ in f.auxdef.items()})
T('a_to_cell',lambda:[Z(x-y) for x,y in zip(tools.a_to_cell(A)[:3],cell[:3])]+[Z(x.c-y.c) for x,y in zip(tools.a_to_cell(A)[3:],cell[3:])]+[Z(x.s-y.s) for x,y in zip(tools.a_to_cell(A)[3:],cell[3:])])
def bt():
    rb=tools.b_to_cell(B); return [Z(x-y) for x,y in zip(rb[:3],cell[:3])]+[Z(x.c-y.c) for x,y in zip(rb[3:],cell[3:])]+[Z(x.s-y.s) for x,y in zip(rb[3:],cell[3:])]
T('b_to_cell',bt)
def ci():
    r=tools.cell_invert(tools.cell_invert(cell)); return [Z(x-y) for x,y in zip(r[:3],cell[:3])]+[Z(x.c-y.c) for x,y in zip(r[3:],cell[3:])]
T('cell_invert^2',ci)
G=np.array([[cell[0]*cell[0],cell[0]*cell[1]*cell[5].c,cell[0]*cell[2]*cell[4].c],[cell[0]*cell[1]*cell[5].c,cell[1]*cell[1],cell[1]*cell[2]*cell[3].c],[cell[0]*cell[2]*cell[4].c,cell[1]*cell[2]*cell[3].c,cell[2]*cell[2]]],dtype=object)
def btbg():
    M=np.dot(np.dot(B.T,B),G); pi2=v('pi')*v('pi')*4
    return [Z(M[i,j]-(pi2 if i==j else 0)) for i in range(3) for j in range(3)]
T('BtB.G=4pi^2 I',btbg)
w_,x_,y_,z_=v('w'),v('x'),v('y'),v('z')
U=np.array([[w_*w_+x_*x_-y_*y_-z_*z_,2*(x_*y_-w_*z_),2*(x_*z_+w_*y_)],[2*(x_*y_+w_*z_),w_*w_-x_*x_+y_*y_-z_*z_,2*(y_*z_-w_*x_)],[2*(x_*z_-w_*y_),2*(y_*z_+w_*x_),w_*w_-x_*x_-y_*y_+z_*z_]],dtype=object)
T('UtU=I',lambda:[Z(q-(1 if i==j else 0)) for (i,j),q in np.ndenumerate(np.dot(U.T,U))])
ubi=[None]
def mk(): ubi[0]=tools.u_to_ubi(U,cell); return 'built'
T('u_to_ubi',mk)
def uc():
    r=tools.ubi_to_cell(ubi[0]); return [Z(x-y) for x,y in zip(r[:3],cell[:3])]+[Z(x.c-y.c) for x,y in zip(r[3:],cell[3:])]+[Z(x.s-y.s) for x,y in zip(r[3:],cell[3:])]
T('ubi_to_cell',uc)
T('ubi_to_u',lambda:[Z(q-U[i,j]) for (i,j),q in np.ndenumerate(tools.ubi_to_u(ubi[0]))])
eps=[v('e%d'%i) for i in range(6)]
def e1():
    Bs=tools.epsilon_to_b(eps,cell); r=tools.b_to_epsilon(Bs,cell); return [Z(a-b) for a,b in zip(r,eps)]
T('eps new roundtrip',e1)
def e3():
    Bs=tools.epsilon_to_b(eps,cell); ub=inv3(np.dot(U,Bs))*(v('pi')*2)
    u2,ee=tools.ubi_to_u_and_eps(ub,cell); return [Z(q-U[i,j]) for (i,j),q in np.ndenumerate(u2)]+[repr(a-b) for a,b in zip(ee,eps)][:2]
T('ubi_to_u_and_eps(tools conv)',e3)
def e2():
    Bo=tools.epsilon_to_b_old(eps,cell); r=tools.b_to_epsilon_old(Bo,cell); return [Z(a-b) for a,b in zip(r,eps)]
#T('eps old roundtrip',e2)
