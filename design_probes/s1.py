import z3, time, sys
R=z3.Real
a,b,c,ca,sa,cb,sb,cg,sg,pi=z3.Reals('a b c ca sa cb sb cg sg pi')
pre=[a>0,b>0,c>0,sa>0,sb>0,sg>0,ca*ca+sa*sa==1,cb*cb+sb*sb==1,cg*cg+sg*sg==1, pi>3.14159, pi<3.1416]
gram=1-ca*ca-cb*cb-cg*cg+2*ca*cb*cg
pre.append(gram>=z3.RealVal('0.02'))
aux=[]
cnt=[0]
def sqrt(x):
    cnt[0]+=1; v=R('sq%d'%cnt[0]); aux.extend([v>=0,v*v==x]); return v
def div(x,y):
    cnt[0]+=1; q=R('q%d'%cnt[0]); aux.append(q*y==x); return q
mode=sys.argv[1] if len(sys.argv)>1 else 'native'
D=(lambda x,y:x/y) if mode=='native' else div
ang=sqrt(gram); V=a*b*c*ang
salpstar=D(V,(a*b*c*sb*sg)); calpstar=D((cb*cg-ca),(sb*sg))
A=[[a,b*cg,c*cb],[0,b*sg,-c*sb*calpstar],[0,0,c*sb*salpstar]]
G=[[a*a,a*b*cg,a*c*cb],[a*b*cg,b*b,b*c*ca],[a*c*cb,b*c*ca,c*c]]
def AtA(i,j): return sum(A[k][i]*A[k][j] for k in range(3))
for (i,j) in [(0,0),(0,1),(0,2),(1,1),(1,2),(2,2)]:
    for tac in ('default','qfnra-nlsat'):
        s=z3.Solver() if tac=='default' else z3.Tactic('qfnra-nlsat').solver()
        s.set('timeout',60000)
        s.add(pre+aux); s.add(AtA(i,j)!=G[i][j])
        t=time.time(); r=s.check(); print(mode,(i,j),tac,r,round(time.time()-t,2)); sys.stdout.flush()
