import sys
sys.path.insert(0,'/repo')
from typing import Dict, List, Union, Tuple
from xfab import parameters as P

def step_set(d: Dict[str,int], name: str, value: int) -> bool:
    """
    pre: len(d) <= 3
    post: _
    """
    p = P.parameters()
    p.parameters = dict(d)
    model = dict(d)
    p.set(name, value); model[name] = value
    return p.get_parameters() == model and p.get(name) == value

def step_setvals(d: Dict[str,int], vary: List[str], vals: List[int]) -> bool:
    """
    pre: len(d) <= 3 and len(vary) <= 3 and len(vals) == len(vary)
    pre: all(v in d for v in vary)
    post: _
    """
    p = P.parameters()
    p.parameters = dict(d); p.varylist = list(vary)
    model = dict(d)
    p.set_variable_values(vals)
    for k, v in zip(vary, vals): model[k] = v
    return p.get_parameters() == model and p.get_variable_values() == [model[k] for k in vary]

def load_int(name: str, value: int) -> bool:
    """
    pre: 1 <= len(name) <= 3 and all(c in 'ab-_' for c in name)
    pre: -1000 <= value <= 1000
    post: _
    """
    line = "%s %s\n" % (name, str(value))
    p = P.parameters()
    # inline of loadparameters body on one line (file I/O stubbed)
    [nm, val] = line.split(" ")
    nm = nm.replace("-", "_")
    p.parameters[nm] = val
    p.dumbtypecheck()
    return p.parameters == {name.replace("-", "_"): value} and type(p.parameters[nm]) is int

def load_str(name: str, value: str) -> bool:
    """
    pre: name == 'k'
    pre: 1 <= len(value) <= 3 and all(c in 'xe1.-+ n' for c in value) and ' ' not in value
    post: _
    """
    line = "%s %s\n" % (name, value)
    p = P.parameters()
    [nm, val] = line.split(" ")
    p.parameters[nm] = val
    p.dumbtypecheck()
    isnum = True
    try: float(value)
    except ValueError: isnum = False
    return isnum or p.parameters == {name: value}
