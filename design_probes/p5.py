import sys; sys.path.insert(0,'/repo')
import numpy as np
from xfab import tools, checks, detector
import xfab
rng=np.random.default_rng(0)
# C20: float32 rotations rejected?
rej=0
for i in range(200):
    q=rng.normal(size=4); q/=np.linalg.norm(q); w,x,y,z=q
    U=np.array([[w*w+x*x-y*y-z*z,2*(x*y-w*z),2*(x*z+w*y)],[2*(x*y+w*z),w*w-x*x+y*y-z*z,2*(y*z-w*x)],[2*(x*z-w*y),2*(y*z+w*x),w*w-x*x-y*y+z*z]])
    U32=U.astype(np.float32).astype(float)
    try: tools.u_to_rod(U32)
    except ValueError: rej+=1
print('float32 rotations rejected',rej,'/200')
# C03 near gimbal
worst=0
for PHI in (1e-9,5e-9,2e-8,5e-8,1e-7,1e-6,1e-5,1e-4):
    for t in range(50):
        p1,p2=rng.uniform(0,2*np.pi,2)
        U=tools.euler_to_u(p1,PHI,p2)
        e=tools.u_to_euler(U); U2=tools.euler_to_u(*e)
        worst=max(worst,abs(U2-U).max())
    print('PHI',PHI,'worst',worst); worst=0
# C09 find_omega_wedge check
def Ry(a): return np.array([[np.cos(a),0,np.sin(a)],[0,1,0],[-np.sin(a),0,np.cos(a)]])
for wedge in (0.0,0.1,-0.2):
    g=rng.normal(size=3); tth=0.3; g=g/np.linalg.norm(g)*np.sin(tth/2)
    om,eta=tools.find_omega_wedge(g,tth,wedge)
    for o,e in zip(om,eta):
        gt=Ry(-wedge)@tools.form_omega_mat(o)@g
        print('wedge',wedge,gt[0]+np.sin(tth/2)**2, gt[1]+np.sin(tth)*np.sin(e)/2, gt[2]-np.sin(tth)*np.cos(e)/2)
    om2,eta2=tools.find_omega_general(g,tth,0.05,wedge)
    for o,e in zip(om2,eta2):
        gt=tools.form_omega_mat_general(o,0.05,wedge)@g
        print(' general',gt[0]+np.sin(tth/2)**2, gt[1]+np.sin(tth)*np.sin(e)/2, gt[2]-np.sin(tth)*np.cos(e)/2)
    om3,eta3=tools.find_omega_quart(g,tth,0.05,wedge)
    for o,e in zip(om3,eta3):
        gt=tools.quart_to_omega(o*180/np.pi,0.05,wedge)@g
        print(' quart',gt[0]+np.sin(tth/2)**2, gt[1]+np.sin(tth)*np.sin(e)/2, gt[2]-np.sin(tth)*np.cos(e)/2)
