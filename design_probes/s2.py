import z3, time, sys
R=z3.Real
a,b,c,ca,sa,cb,sb,cg,sg,pi,h,k,l=z3.Reals('a b c ca sa cb sb cg sg pi h k l')
pre=[a>0,b>0,c>0,sa>0,sb>0,sg>0,ca*ca+sa*sa==1,cb*cb+sb*sb==1,cg*cg+sg*sg==1, pi>3.14159, pi<3.1416]
gram=1-ca*ca-cb*cb-cg*cg+2*ca*cb*cg
pre.append(gram>=z3.RealVal('0.02'))
aux=[];cnt=[0]
def sqrt(x):
    cnt[0]+=1; v=R('sq%d'%cnt[0]); aux.extend([v>=0,v*v==x]); return v
ang=sqrt(gram); V=a*b*c*ang
salpstar=V/(a*b*c*sb*sg); calpstar=(cb*cg-ca)/(sb*sg)
A=[[a,b*cg,c*cb],[0,b*sg,-c*sb*calpstar],[0,0,c*sb*salpstar]]
astar=2*pi*b*c*sa/V; bstar=2*pi*a*c*sb/V; cstar=2*pi*a*b*sg/V
sbetstar=V/(a*b*c*sa*sg); sgamstar=V/(a*b*c*sa*sb)
cbetstar=(ca*cg-cb)/(sa*sg); cgamstar=(ca*cb-cg)/(sa*sb)
B=[[astar,bstar*cgamstar,cstar*cbetstar],[0,bstar*sgamstar,-cstar*sbetstar*ca],[0,0,cstar*sbetstar*sa]]
def chk(name,neg,to=60000,tac='default'):
    s=z3.Solver() if tac=='default' else z3.Tactic(tac).solver()
    s.set('timeout',to); s.add(pre+aux); s.add(neg)
    t=time.time(); r=s.check(); print(name,tac,r,round(time.time()-t,2)); sys.stdout.flush()
for i in range(3):
    for j in range(3):
        e=sum(A[k_][i]*B[k_][j] for k_ in range(3))
        chk('AtB%d%d'%(i,j), e!=(2*pi if i==j else 0))
# sintl
part1=(h*h/(a*a))*(1-ca*ca)+(k*k/(b*b))*(1-cb*cb)+(l*l/(c*c))*(1-cg*cg)+2*h*k*(ca*cb-cg)/(a*b)+2*h*l*(ca*cg-cb)/(a*c)+2*k*l*(cb*cg-ca)/(b*c)
part2=1-(ca*ca+cb*cb+cg*cg)+2*ca*cb*cg
g=[sum(B[i][j]*[h,k,l][j] for j in range(3)) for i in range(3)]
g2=sum(x*x for x in g)
# stl^2 = part1/(4 part2) ; claim = g2/(16 pi^2)
chk('sintl2', part1/(4*part2)!=g2/(16*pi*pi))
# diag positivity
chk('Bdiag', z3.Or(B[0][0]<=0,B[1][1]<=0,B[2][2]<=0))
chk('Adiag', z3.Or(A[0][0]<=0,A[1][1]<=0,A[2][2]<=0))
detA=A[0][0]*A[1][1]*A[2][2]
chk('detA', detA!=V)
