"""probe 3: proxies over an exact fraction field QQ(gens) modulo quadratic relations g^2 = r
   (sympy.polys rings: sparse, fast gcd).  Real xfab code runs on numpy object arrays of these."""
import sys, time; sys.path.insert(0, '/repo')
import numpy as np
from sympy.polys.rings import ring
from sympy.polys.domains import QQ
from fractions import Fraction

class Field:
    def __init__(self, names, positive=(), naux=12):
        self.names = list(names) + ['u%d' % i for i in range(naux)]
        self.R, *gens = ring(self.names, QQ)
        self.g = dict(zip(self.names, gens))
        self.idx = {n: i for i, n in enumerate(self.names)}
        self.rel = {}            # gen index -> replacement polynomial for gen**2
        self.positive = set(positive)
        self.naux = 0
        self.auxdef = {}
    def relation(self, name, rep):
        self.rel[self.idx[name]] = rep
    def red(self, p):
        """normal form modulo the relations (each relation var to degree <= 1)"""
        R = self.R
        changed = True
        while changed:
            changed = False
            for i, rep in self.rel.items():
                if p == 0: return p
                if max((m[i] for m in p.keys()), default=0) < 2: continue
                acc = {}
                for m, c in p.items():
                    e = m[i]
                    if e >= 2:
                        mm = list(m); mm[i] = e % 2
                        acc.setdefault(e // 2, R.zero)
                        acc[e // 2] = acc[e // 2] + R.term_new(tuple(mm), c)
                    else:
                        acc.setdefault(0, R.zero)
                        acc[0] = acc[0] + R.term_new(m, c)
                q = R.zero
                for k, poly in acc.items():
                    q = q + poly * rep ** k
                p = q; changed = True
        return p
    def aux(self, radicand):
        for n, r in self.auxdef.items():
            if r == radicand: return self.g[n]
        n = 'u%d' % self.naux; self.naux += 1
        self.auxdef[n] = radicand; self.relation(n, radicand); self.positive.add(n)
        return self.g[n]

F = None
def setfield(f):
    global F; F = f

def lift(o):
    if isinstance(o, Q): return o
    if isinstance(o, (int, np.integer)): return Q(F.R(int(o)), F.R.one)
    if isinstance(o, (float, np.floating)):
        fr = Fraction(str(float(o))); return Q(F.R(QQ(fr.numerator, fr.denominator)), F.R.one)
    raise TypeError(type(o))

class Q:
    """num/den in QQ[gens]/relations, cancelled"""
    __slots__ = ('n', 'd')
    def __init__(self, n, d, norm=True):
        if norm:
            n = F.red(n); d = F.red(d)
            if n == 0: d = F.R.one
            else:
                n, d = n.cancel(d)
        self.n = n; self.d = d
    def __add__(s, o):
        if isinstance(o, np.ndarray): return NotImplemented
        o = lift(o); return Q(s.n * o.d + o.n * s.d, s.d * o.d)
    __radd__ = __add__
    def __sub__(s, o):
        if isinstance(o, np.ndarray): return NotImplemented
        o = lift(o); return Q(s.n * o.d - o.n * s.d, s.d * o.d)
    def __rsub__(s, o): return lift(o) - s
    def __mul__(s, o):
        if isinstance(o, np.ndarray): return NotImplemented
        if isinstance(o, Angle): return o.__rmul__(s)
        o = lift(o); return Q(s.n * o.n, s.d * o.d)
    __rmul__ = __mul__
    def __truediv__(s, o):
        if isinstance(o, np.ndarray): return NotImplemented
        o = lift(o); return Q(s.n * o.d, s.d * o.n)
    def __rtruediv__(s, o): return lift(o) / s
    def __neg__(s): return Q(-s.n, s.d, norm=False)
    def __pow__(s, k):
        r = lift(1)
        for _ in range(k): r = r * s
        return r
    def iszero(s): return s.n == 0
    def __repr__(s):
        t = '(%s)/(%s)' % (s.n, s.d); return t if len(t) < 100 else t[:100] + '...[%d terms/%d terms]' % (len(s.n), len(s.d))
    def sqrt(s):
        if s.n == 0: return s
        def root(p):
            """returns (outside, inside): p = outside^2 * inside (up to relations)"""
            pre = F.R.one
            progress = True
            while progress:
                progress = False
                for i, rep in F.rel.items():
                    if p.is_ground: break
                    q, r = divmod(p, rep)
                    if r == 0:
                        p = q; pre = pre * F.R.gens[i]; progress = True
            c, facs = p.factor_list()
            out = pre; inside = F.R(c)
            for f, k in facs:
                g = None
                for i, rep in F.rel.items():
                    if f == rep: g = F.R.gens[i]; sgn = 1; break
                    if f == -rep: g = F.R.gens[i]; sgn = -1; break
                if g is not None:
                    # f = sgn*g^2
                    out = out * g ** k
                    if sgn == -1 and k % 2: inside = -inside
                else:
                    out = out * f ** (k // 2)
                    if k % 2: inside = inside * f
            return out, inside
        on, inn = root(s.n); od, ind = root(s.d)
        inside = F.red(inn * ind)          # sqrt(inn/ind) = sqrt(inn*ind)/ind
        # constant part
        if inside.is_ground:
            c = Fraction(int(inside.LC.numerator), int(inside.LC.denominator)) if inside != 0 else Fraction(0)
            import math
            rn, rd = math.isqrt(c.numerator), math.isqrt(c.denominator)
            if c > 0 and rn * rn == c.numerator and rd * rd == c.denominator:
                return Q(on * F.R(QQ(rn, rd)), od * ind)
        u = F.aux(inside)
        return Q(on * u, od * ind)
    def arccos(s): return Angle(s, (lift(1) - s * s).sqrt(), 'rad')

class Angle:
    def __init__(self, c, s, unit='rad'): self.c = c; self.s = s; self.unit = unit
    def __mul__(self, o):
        if isinstance(o, Q) and o.n == F.g['pi'] and o.d == 1 and self.unit == 'deg': return Angle(self.c, self.s, 'deg*pi')
        if self.unit == 'rad' and o == 180.: return Angle(self.c, self.s, 'rad*180')
        raise TypeError((self.unit, o))
    __rmul__ = __mul__
    def __truediv__(self, o):
        if self.unit == 'deg*pi' and o == 180.: return Angle(self.c, self.s, 'rad')
        if self.unit == 'rad*180' and isinstance(o, Q) and o.n == F.g['pi'] and o.d == 1: return Angle(self.c, self.s, 'deg')
        raise TypeError((self.unit, o))
    def cos(self): assert self.unit == 'rad'; return self.c
    def sin(self): assert self.unit == 'rad'; return self.s
def degrees(a): assert a.unit == 'rad'; return Angle(a.c, a.s, 'deg')

def inv3(A):
    A = np.asarray(A, dtype=object)
    c = lambda i, j: A[(i+1) % 3, (j+1) % 3] * A[(i+2) % 3, (j+2) % 3] - A[(i+1) % 3, (j+2) % 3] * A[(i+2) % 3, (j+1) % 3]
    det = A[0, 0] * c(0, 0) + A[0, 1] * c(0, 1) + A[0, 2] * c(0, 2)
    return np.array([[c(j, i) / det for j in range(3)] for i in range(3)], dtype=object)
class LA: inv = staticmethod(inv3)
class NP:
    linalg = LA()
    @property
    def pi(self): return Q(F.g['pi'], F.R.one)
    def __getattr__(self, k): return getattr(np, k)
    def zeros(self, shape, dtype=None):
        a = np.empty(shape, dtype=object); a.fill(0); return a
    def eye(self, n):
        a = np.empty((n, n), dtype=object); a.fill(0)
        for i in range(n): a[i, i] = 1
        return a
    def asarray(self, x, dtype=None): return x if isinstance(x, np.ndarray) else np.array(x, dtype=object)
def patch(mod):
    mod.n = NP(); mod.np = mod.n; mod.degrees = degrees

def cellfield(extra=(), naux=12):
    names = ['a', 'b', 'c', 'cal', 'sal', 'cbe', 'sbe', 'cga', 'sga', 'pi'] + list(extra)
    f = Field(names, positive=('a', 'b', 'c', 'sal', 'sbe', 'sga', 'pi'), naux=naux); setfield(f)
    for cn, sn in (('cal', 'sal'), ('cbe', 'sbe'), ('cga', 'sga')):
        f.relation(sn, 1 - f.g[cn] ** 2)
    v = lambda n: Q(f.g[n], f.R.one)
    cell = [v('a'), v('b'), v('c')] + [Angle(v(c), v(s), 'deg') for c, s in (('cal', 'sal'), ('cbe', 'sbe'), ('cga', 'sga'))]
    return f, cell, v
