import z3, time
c,s,c1,s1,c2,s2=z3.Reals('c s c1 s1 c2 s2')
tol=z3.RealVal('1e-8'); K=1-z3.RealVal('5e-17')  # cos(1e-8)
pre=[c*c+s*s==1,c1*c1+s1*s1==1,c2*c2+s2*s2==1,s>=0]
# main branch: PHI>=tol  <=> c<=K  ; and PHI <= pi - tol <=> c>=-K
pre+=[c<=K,c>=-K]
U02=s1*s; U12=-c1*s; U20=s2*s; U21=c2*s
# phi1=_arctan2(y=U02,x=-U12): y zeroed, x>tol -> phi1=0 ; phi2 = _arctan2(U20,U21): no zeroing, x>0 -> arctan(y/x): cos=x/r, sin=y/r
pre+=[z3.And(U02<tol,U02>-tol), -U12>=tol, U21>=tol, z3.Or(U20>=tol,U20<=-tol)]
r=z3.Real('r'); pre+=[r>0,r*r==U20*U20+U21*U21]
cp1,sp1=z3.RealVal(1),z3.RealVal(0)
cp2,sp2=U21/r,U20/r
U00=c1*c2-s1*s2*c
U00r=cp1*cp2-sp1*sp2*c
s_=z3.Solver(); s_.set('timeout',120000); s_.add(pre); s_.add(z3.Or(U00r-U00>z3.RealVal('1e-6'),U00-U00r>z3.RealVal('1e-6')))
t=time.time(); res=s_.check(); print(res,round(time.time()-t,1))
if res==z3.sat:
    m=s_.model(); print({str(d):m[d].as_decimal(12) for d in m.decls()})
