import sys, time, z3
sys.path.insert(0,'/repo')
from fractions import Fraction as Fr
from xfab import tools, sg
import logging; logging.disable(logging.CRITICAL)
exec(open('s8.py').read().split("EX=None")[0].split("import logging")[1].split("\n",1)[1])
EX=None
class I:
    def __init__(s,e): s.e=e
    @staticmethod
    def l(o): return o.e if isinstance(o,I) else z3.IntVal(int(o))
    def __add__(s,o): return I(s.e+I.l(o))
    __radd__=__add__
    def __sub__(s,o): return I(s.e-I.l(o))
    def __rsub__(s,o): return I(I.l(o)-s.e)
    def __neg__(s): return I(-s.e)
    def __abs__(s): return I(z3.If(s.e>=0,s.e,-s.e))
    def __mod__(s,k): return I(s.e%int(k))
    def __eq__(s,o): return EX.decide(s.e==I.l(o))
    def __ne__(s,o): return EX.decide(s.e!=I.l(o))
    __hash__=None
def snap(v):
    f=Fr(float(v)).limit_denominator(24); assert abs(float(f)-v)<2e-6; return int(f*24)
def run(no,cc):
    global EX
    g=sg.sg(sgno=no,cell_choice=cc)
    h=[z3.Int(x) for x in 'hkl']
    # oracle: extinct iff exists op: hR==h and h.t not integer
    ex=[]
    for R,t in zip(g.rot,g.trans):
        R=[[int(x) for x in r] for r in R]; t=[snap(x) for x in t]
        hR=[sum(h[i]*R[i][j] for i in range(3)) for j in range(3)]
        ex.append(z3.And(hR[0]==h[0],hR[1]==h[1],hR[2]==h[2],(h[0]*t[0]+h[1]*t[1]+h[2]*t[2])%24!=0))
    extinct=z3.Or(ex)
    base=[z3.And(x>=-1000,x<=1000) for x in h]
    EX=Explorer(base)
    cex=[]
    def fn(exx):
        r=tools.sysabs([I(x) for x in h],list(g.syscond),g.crystal_system,g.cell_choice)
        return r
    t0=time.time()
    leaves=EX.explore(fn,maxpaths=20000)
    # leaf check
    bad=0
    for trace,res in leaves:
        s=z3.Solver(); s.add(base)
        # rebuild pc: re-run with prefix (cheap) -> store pc in leaves instead
    return len(leaves),EX.nq,round(EX.tq,1),round(time.time()-t0,1)
for no,cc in ((14,'standard'),(62,'standard'),(142,'standard'),(167,'standard'),(167,'rhombohedral'),(194,'standard'),(227,'standard'),(230,'standard')):
    print(no,cc,run(no,cc),flush=True)
