import sys; sys.path.insert(0,'/repo')
import numpy as np, itertools, fractions
from xfab import tools, laue, structure, atomlib, symmetry, detector, sg
np.random.seed(2)
# C07: anisotropic in trigonal group
class A: pass
def atom(pos,adp_type,adp,occ=1.0,t='C',m=None):
    a=structure.atom_entry(label='x',atomtype=t,pos=pos,adp_type=adp_type,adp=adp,occ=occ,symmulti=m)
    return a
def F(hkl,cell,sgname,atoms):
    r=structure.StructureFactor(np.array(hkl),cell,sgname,atoms); return complex(r[0],r[1])
for sgname,cell in (('P3',[5,5,7,90,90,120]),('P4',[5,5,7,90,90,90]),('P21/c',[5,6,7,90,100,90]),('P6122',[5,5,7,90,90,120]),('Fd-3m',[5,5,5,90,90,90])):
    g=sg.sg(sgname=sgname)
    pos=np.array([0.123,0.277,0.391])
    for adpt,adp in (('Uiso',0.02),('Uani',[0.02,0.03,0.025,0.004,-0.003,0.006])):
        at=[atom(pos,adpt,adp,m=g.nsymop)]
        worst=0
        for hkl in itertools.product(range(-3,4),repeat=3):
            if hkl==(0,0,0):continue
            f=F(hkl,cell,sgname,at)
            for R,t in zip(g.rot,g.trans):
                h2=np.dot(hkl,R)
                f2=F(h2,cell,sgname,at)
                exp=f*np.exp(-2j*np.pi*np.dot(hkl,t))
                worst=max(worst,abs(f2-exp))
        print(sgname,adpt,'worst',worst)
