import time, z3, numpy as np
from eng import *
from xfab import tools, CHECKS
import xfab
xfab.CHECKS.activated=False
tools.n=symnp
symnp_asarray=lambda x,dtype=None: x if isinstance(x,np.ndarray) else np.array(x,dtype=object)
SymNP.asarray=staticmethod(symnp_asarray)
def chk(name,pre,neg,to=30000):
    s=z3.Solver(); s.set('timeout',to); s.add(pre+CTX.aux+CTX.pc); s.add(neg); t=time.time(); r=s.check(); print(name,r,round(time.time()-t,2),flush=True); return r
def det3(M): return M[0,0]*(M[1,1]*M[2,2]-M[1,2]*M[2,1])-M[0,1]*(M[1,0]*M[2,2]-M[1,2]*M[2,0])+M[0,2]*(M[1,0]*M[2,1]-M[1,1]*M[2,0])
# rod_to_u
r=[Sym(z3.Real('r%d'%i)) for i in range(3)]
U=tools.rod_to_u(np.array(r,dtype=object))
UtU=np.dot(U.T,U)
chk('rod_to_u orth',[],z3.Or([lift(UtU[i,j])!=(1 if i==j else 0) for i in range(3) for j in range(3)]))
chk('rod_to_u det',[],lift(det3(U))!=1)
# u_to_rod(rod_to_u(r))==r : has abs(ttt)<1e-16 branch -> abs on Sym
Sym.__abs__=lambda s: Sym(z3.If(s.e>=0,s.e,-s.e))
CTX.pc=[];CTX.decisions=[False];CTX.pos=0
rr=tools.u_to_rod(U)
chk('u_to_rod rt',[],z3.Or([lift(rr[i])!=r[i].e for i in range(3)]))
# euler_to_u with Angle rad
CTX.pc=[]
ang=[Angle(Sym(z3.Real('c%d'%i)),Sym(z3.Real('s%d'%i)),'rad') for i in range(3)]
pre=[g.c.e*g.c.e+g.s.e*g.s.e==1 for g in ang]
E=tools.euler_to_u(*ang)
EtE=np.dot(E.T,E)
chk('euler orth',pre,z3.Or([lift(EtE[i,j])!=(1 if i==j else 0) for i in range(3) for j in range(3)]))
chk('euler det',pre,lift(det3(E))!=1)
# quaternion-parametrised general rotation -> u_to_rod -> rod_to_u == U
q=[Sym(z3.Real('q%d'%i)) for i in range(4)]
n2=q[0]*q[0]+q[1]*q[1]+q[2]*q[2]+q[3]*q[3]
w,x,y,z=q
Uq=np.array([[w*w+x*x-y*y-z*z,2*(x*y-w*z),2*(x*z+w*y)],[2*(x*y+w*z),w*w-x*x+y*y-z*z,2*(y*z-w*x)],[2*(x*z-w*y),2*(y*z+w*x),w*w-x*x-y*y+z*z]],dtype=object)
pre=[n2.e==1, w.e*w.e>=z3.RealVal('1e-12')]
CTX.pc=[];CTX.decisions=[False];CTX.pos=0
rr=tools.u_to_rod(Uq)
U2=tools.rod_to_u(rr)
chk('U->rod->U',pre,z3.Or([lift(U2[i,j])!=lift(Uq[i,j]) for i in range(3) for j in range(3)]),60000)
