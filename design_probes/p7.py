import sys; sys.path.insert(0,'/repo')
import numpy as np, itertools
from xfab import tools, sg, detector, structure
import logging; logging.disable(logging.CRITICAL)
rng=np.random.default_rng(7)
# C10
worst=0
for t in range(2000):
    tth=rng.uniform(0.01,1.0); eta=rng.uniform(-np.pi,np.pi); tilt=rng.uniform(-0.3,0.3,3)
    R=tools.detect_tilt(*tilt); L=rng.uniform(10,1000); py,pz=rng.uniform(0.01,0.5,2); y0,z0=rng.uniform(-500,2500,2)
    tx,ty,tz=rng.uniform(-2,2,3); lam=rng.uniform(0.1,2)
    v=np.array([np.cos(tth),-np.sin(tth)*np.sin(eta),np.sin(tth)*np.cos(eta)])
    Gt=2*np.pi/lam*v
    d1=detector.det_coor(Gt,np.cos(tth),lam,L,py,pz,y0,z0,R,tx,ty,tz)
    d2=detector.det_coor2(tth,eta,L,py,pz,y0,z0,R,tx,ty,tz)
    P=np.array(detector.detector_to_lab(d1[0],d1[1],L,py,pz,y0,z0,R))
    w=P-np.array([tx,ty,tz]); cr=np.cross(w,v)
    worst=max(worst,abs(d1[0]-d2[0]),abs(d1[1]-d2[1]),np.abs(cr).max()/np.linalg.norm(w))
    assert w@v>0
print('C10 worst',worst)
# C11
valid=[(1,0,0,1),(-1,0,0,1),(1,0,0,-1),(-1,0,0,-1),(0,1,1,0),(0,-1,-1,0),(0,-1,1,0),(0,1,-1,0)]
bad=[]
for o in itertools.product((-1,0,1),repeat=4):
    for n0,n1 in ((3,5),(4,4),(1,6),(7,2)):
        img=np.arange(n0*n1).reshape(n0,n1)
        try:
            f=detector.trans_orientation(img,*o,'forward'); ok=True
        except ValueError: ok=False
        if ok!=(o in valid): bad.append(('valid',o)); continue
        if not ok: continue
        b=detector.trans_orientation(f,*o,'inverse')
        if b.shape!=img.shape or (b!=img).any(): bad.append(('trans inv',o,n0,n1))
        f2=detector.image_flipping(img,*o,'forward'); b2=detector.image_flipping(f2,*o,'inverse')
        if b2.shape!=img.shape or (b2!=img).any(): bad.append(('flip inv',o,n0,n1))
        for x in range(n0):
            for y in range(n1):
                dy,dz=detector.xy_to_detyz([x,y],*o,n1,n0)
                dy,dz=int(round(dy)),int(round(dz))
                try:
                    if dy<0 or dz<0 or f[dy,dz]!=img[x,y]: bad.append(('pix',o,n0,n1,x,y,dy,dz)); break
                except IndexError: bad.append(('pixidx',o,n0,n1,x,y,dy,dz)); break
                back=detector.detyz_to_xy([dy,dz],*o,n1,n0)
                if abs(back[0]-x)>1e-9 or abs(back[1]-y)>1e-9: bad.append(('xyinv',o,n0,n1,x,y)); break
print('C11 bad',bad[:10],len(bad))
for eta in (0,10,90,180,270,359.9,360):
    c=detector.eta_and_radpix_to_detyz(eta,5.0,100,200); print(eta,detector.detyz_to_eta_and_radpix(c,100,200))
from collections import Counter
print(Counter((b[0],b[1]) for b in bad))
