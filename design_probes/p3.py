import sys; sys.path.insert(0,'/repo')
import numpy as np, itertools
from fractions import Fraction as Fr
from xfab import structure, sg, sglib
import logging; logging.disable(logging.CRITICAL)
def snap(v):
    f=Fr(v).limit_denominator(24); assert abs(float(f)-v)<2e-6,(v,f); return f
def orbit_count(g,pos):
    pts=set()
    for R,t in zip(g.rot,g.trans):
        R=[[int(x) for x in r] for r in R]
        p=tuple((sum(R[i][j]*pos[j] for j in range(3))+snap(t[i]))%1 for i in range(3))
        pts.add(p)
    return len(pts)
grid=[Fr(0),Fr(1,8),Fr(1,6),Fr(1,4),Fr(1,3),Fr(3,8),Fr(1,2),Fr(5,8),Fr(2,3),Fr(3,4),Fr(5,6),Fr(7,8)]
bad={}
tot=0
for no in range(1,231):
    for cc in ('standard','rhombohedral'):
        if cc=='rhombohedral' and no not in (146,148,155,160,161,166,167): continue
        g=sg.sg(sgno=no,cell_choice=cc)
        for pos in itertools.product(grid[::2]+[Fr(1,3),Fr(2,3)],repeat=3):
            exp=orbit_count(g,pos)
            got=structure.multiplicity([float(x) for x in pos],sgno=no,cell_choice=cc)
            tot+=1
            if exp!=got:
                bad.setdefault((no,cc),[]).append((tuple(map(str,pos)),exp,got))
print(tot,len(bad))
for k,v in list(bad.items())[:40]: print(k,len(v),v[:2])
