import sys, time; sys.path.insert(0,'/repo')
import sympy as sp, numpy as np, z3
from xfab import tools
import xfab; xfab.CHECKS.activated=False
REL=[]   # list of (var, var**2 replacement expr)  : v**2 -> e
AUX=[]
def reduce(e):
    e=sp.together(e); num,den=sp.fraction(e)
    num=sp.expand(num); den=sp.expand(den)
    def red(p):
        changed=True
        while changed:
            changed=False
            for v,rep in REL:
                q=sp.Poly(p,v)
                if q.degree()>=2:
                    new=0
                    for (k,),coef in q.terms():
                        new+=coef*(rep**(k//2))*(v**(k%2))
                    p=sp.expand(new); changed=True
        return p
    num=red(num); den=red(den)
    return sp.cancel(num/den)
class Sym:
    __array_priority__=1000
    def __init__(s,e): s.e=sp.sympify(e)
    def _l(o): return o.e if isinstance(o,Sym) else sp.nsimplify(o,rational=True) if isinstance(o,float) else sp.Integer(int(o))
    def __add__(s,o): return Sym(s.e+Sym._l(o))
    __radd__=__add__
    def __sub__(s,o): return Sym(s.e-Sym._l(o))
    def __rsub__(s,o): return Sym(Sym._l(o)-s.e)
    def __mul__(s,o):
        if isinstance(o,np.ndarray): return NotImplemented
        return Sym(s.e*Sym._l(o))
    __rmul__=__mul__
    def __truediv__(s,o): return Sym(s.e/Sym._l(o))
    def __rtruediv__(s,o): return Sym(Sym._l(o)/s.e)
    def __neg__(s): return Sym(-s.e)
    def __pow__(s,k): return Sym(s.e**k)
    def __abs__(s): raise NotImplementedError
    def sqrt(s):
        x=reduce(s.e)
        if x.is_number and x>=0 and sp.sqrt(x).is_rational: return Sym(sp.sqrt(x))
        v=sp.Symbol('v%d'%len(REL),nonnegative=True); REL.append((v,x)); return Sym(v)
    def arctan2(s,c):
        r=(s*s+c*c).sqrt(); return Angle(c/r,s/r)
    def __lt__(s,o): return DEC.pop(0)
    def __gt__(s,o): return DEC.pop(0)
class Angle:
    def __init__(self,c,s): self.c=c; self.s=s
    def cos(self): return self.c
    def sin(self): return self.s
    def __gt__(self,o): return False
    def __truediv__(self,k): return self
class Two:
    def __init__(self,c,s): self.c=c; self.s=s
    def __truediv__(self,k): assert k==2; return Angle(self.c,self.s)
    def sin(self): return 2*self.s*self.c
    def cos(self): return self.c*self.c-self.s*self.s
class NP:
    pi=Sym(sp.Symbol('pi'))
    def __getattr__(self,k): return getattr(np,k)
tools.n=NP()
def trig(name):
    c,s=sp.symbols('c%s s%s'%(name,name)); REL.append((s,1-c**2)); return Sym(c),Sym(s)
cth,sth=trig('th'); cchi,schi=trig('chi'); cw,sw=trig('w')
g0,g1=sp.symbols('g0 g1'); g2=sp.Symbol('g2')
REL.append((g2, sth.e**2-g0**2-g1**2))
g=np.array([Sym(g0),Sym(g1),Sym(g2)],dtype=object)
mode=sys.argv[1]
chi=Angle(cchi,schi); wed=Angle(cw,sw)
if mode=='nochi': chi=Angle(Sym(1),Sym(0))
if mode=='nowedge': wed=Angle(Sym(1),Sym(0))
DEC=[False,False]  # assert abs(..)<1e-9 -> handled: abs raises? 
Sym.__abs__=lambda s: s
DEC=[True,False]
t=time.time()
om,eta=tools.find_omega_general(g,Two(cth,sth),chi,wed)
for i in range(2):
    Om=tools.form_omega_mat_general(om[i],chi,wed)
    gt=np.dot(Om,g)
    res=reduce((gt[0]+sth*sth).e)
    print(mode,i,'residual:',str(res)[:300],' t=',round(time.time()-t,1),flush=True)
