import time, sys
from eng3 import *
import eng3
import xfab; xfab.CHECKS.activated=False
from xfab import tools
patch(tools)
names=['a','b','c','cal','sal','cbe','sbe','cga','sga','pi','a2','b2','c2','cal2','sal2','cbe2','sbe2','cga2','sga2','w','x','y','z']
f=Field(names,naux=8); setfield(f)
for cn,sn in (('cal','sal'),('cbe','sbe'),('cga','sga'),('cal2','sal2'),('cbe2','sbe2'),('cga2','sga2')): f.relation(sn,1-f.g[cn]**2)
f.relation('w',1-f.g['x']**2-f.g['y']**2-f.g['z']**2)
v=lambda n: Q(f.g[n],f.R.one)
cell=[v('a'),v('b'),v('c')]+[Angle(v(c),v(s),'deg') for c,s in (('cal','sal'),('cbe','sbe'),('cga','sga'))]
cell2=[v('a2'),v('b2'),v('c2')]+[Angle(v(c),v(s),'deg') for c,s in (('cal2','sal2'),('cbe2','sbe2'),('cga2','sga2'))]
def Z(q): return 'ZERO' if q.iszero() else repr(q)
def T(label,fn):
    t=time.time()
    try: r=fn()
    except Exception as e:
        import traceback; traceback.print_exc(); r='EXC %r'%(e,)
    print(label,r,'[%.1fs, aux=%d]'%(time.time()-t,f.naux),flush=True)
w_,x_,y_,z_=v('w'),v('x'),v('y'),v('z')
U=np.array([[w_*w_+x_*x_-y_*y_-z_*z_,2*(x_*y_-w_*z_),2*(x_*z_+w_*y_)],[2*(x_*y_+w_*z_),w_*w_-x_*x_+y_*y_-z_*z_,2*(y_*z_-w_*x_)],[2*(x_*z_-w_*y_),2*(y_*z_+w_*x_),w_*w_-x_*x_-y_*y_+z_*z_]],dtype=object)
Bs=tools.form_b_mat(cell2); B0=tools.form_b_mat(cell)
def oracle(Bm):
    Tm=np.dot(B0,inv3(Bm)); E=(Tm+Tm.T)*Q(f.R(QQ(1,2)),f.R.one)
    return [E[0,0]-1,E[0,1],E[0,2],E[1,1]-1,E[1,2],E[2,2]-1]
def e3():
    ub=inv3(np.dot(U,Bs))*(v('pi')*2)
    u2,ee=tools.ubi_to_u_and_eps(ub,cell); orc=oracle(Bs)
    return [Z(q-U[i,j]) for (i,j),q in np.ndenumerate(u2)]+[Z(a-b) for a,b in zip(ee,orc)]
T('ubi_to_u_and_eps (tools conv; B=form_b_mat(cell2))',e3)
def e4():
    r=tools.b_to_epsilon_old(Bs,cell); A2=tools.form_a_mat(cell2); Tm=np.dot(A2,tools.form_a_mat_inv(cell)); E=(Tm+Tm.T)*Q(f.R(QQ(1,2)),f.R.one)
    orc=[E[0,0]-1,E[0,1],E[0,2],E[1,1]-1,E[1,2],E[2,2]-1]
    res=[Z(a-b) for a,b in zip(r,orc)]
    Bo=tools.epsilon_to_b_old(orc,cell)
    return res+[Z(q-Bs[i,j]) for (i,j),q in np.ndenumerate(Bo)]
T('old pair via cell2',e4)
