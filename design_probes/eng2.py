"""probe 2: sympy-backed proxies with defining relations; real xfab code via numpy object arrays"""
import sys, time; sys.path.insert(0,'/repo')
import sympy as sp, numpy as np
REL=[]   # (symbol, replacement for symbol**2)
def reduce(e):
    e=sp.together(e); num,den=sp.fraction(e)
    def red(p):
        p=sp.expand(p)
        changed=True
        while changed:
            changed=False
            for v,rep in REL:
                if not p.has(v): continue
                q=sp.Poly(p,v)
                if q.degree()>=2:
                    new=0
                    for (k,),coef in q.terms():
                        new+=coef*(rep**(k//2))*(v**(k%2))
                    p=sp.expand(new); changed=True
        return p
    num=red(num); den=red(den)
    if num==0: return sp.Integer(0)
    return sp.cancel(num/den)
def L(o):
    if isinstance(o,Sym): return o.e
    if isinstance(o,(int,np.integer)): return sp.Integer(int(o))
    if isinstance(o,(float,np.floating)): return sp.Rational(str(float(o))) if float(o)!=int(o) else sp.Integer(int(o))
    raise TypeError(type(o))
class Sym:
    def __init__(s,e): s.e=sp.sympify(e)
    def __add__(s,o):
        if isinstance(o,np.ndarray): return NotImplemented
        return Sym(s.e+L(o))
    __radd__=__add__
    def __sub__(s,o):
        if isinstance(o,np.ndarray): return NotImplemented
        return Sym(s.e-L(o))
    def __rsub__(s,o): return Sym(L(o)-s.e)
    def __mul__(s,o):
        if isinstance(o,np.ndarray): return NotImplemented
        if isinstance(o,Angle): return o.__rmul__(s)
        return Sym(s.e*L(o))
    __rmul__=__mul__
    def __truediv__(s,o):
        if isinstance(o,np.ndarray): return NotImplemented
        return Sym(s.e/L(o))
    def __rtruediv__(s,o): return Sym(L(o)/s.e)
    def __neg__(s): return Sym(-s.e)
    def __pow__(s,k): return Sym(s.e**k)
    def sqrt(s):
        x=reduce(s.e)
        if x==0: return Sym(0)
        num,den=sp.fraction(sp.factor(x))
        def back(p):
            out=sp.Integer(1)
            for f,k in sp.factor_list(p)[1]:
                rep=None
                for v,r in REL:
                    if sp.expand(f-r)==0: rep=v**2; break
                    if sp.expand(f+r)==0: rep=-v**2; break
                out*= (rep if rep is not None else f)**k
            return sp.factor_list(p)[0]*out
        y=back(num)/back(den)
        r=sp.sqrt(y)
        if not any((not p.exp.is_integer) for p in r.atoms(sp.Pow)): return Sym(r)
        for vv,xx in REL:
            if str(vv).startswith('v') and sp.expand(xx-x)==0: return Sym(vv)
        v=sp.Symbol('v%d'%len(REL),positive=True); REL.append((v,x)); return Sym(v)
    def arccos(s): return Angle(s,(1-s*s).sqrt(),'rad')
PIs=sp.Symbol('pi',positive=True); PI=Sym(PIs)
class Angle:
    def __init__(self,c,s,unit='rad'): self.c=c; self.s=s; self.unit=unit
    def __mul__(self,o):
        if isinstance(o,Sym) and o.e==PIs and self.unit=='deg': return Angle(self.c,self.s,'deg*pi')
        if self.unit=='rad' and o==180.: return Angle(self.c,self.s,'rad*180')
        raise TypeError((self.unit,o))
    __rmul__=__mul__
    def __truediv__(self,o):
        if self.unit=='deg*pi' and o==180.: return Angle(self.c,self.s,'rad')
        if self.unit=='rad*180' and isinstance(o,Sym) and o.e==PIs: return Angle(self.c,self.s,'deg')
        raise TypeError((self.unit,o))
    def cos(self): assert self.unit=='rad'; return self.c
    def sin(self): assert self.unit=='rad'; return self.s
def degrees(a): assert a.unit=='rad'; return Angle(a.c,a.s,'deg')
def inv3(A):
    A=np.asarray(A,dtype=object)
    c=lambda i,j: A[(i+1)%3,(j+1)%3]*A[(i+2)%3,(j+2)%3]-A[(i+1)%3,(j+2)%3]*A[(i+2)%3,(j+1)%3]
    det=A[0,0]*c(0,0)+A[0,1]*c(0,1)+A[0,2]*c(0,2)
    return np.array([[c(j,i)/det for j in range(3)] for i in range(3)],dtype=object)
class LA:
    inv=staticmethod(inv3)
class NP:
    pi=PI; linalg=LA()
    def __getattr__(self,k): return getattr(np,k)
    def zeros(self,shape,dtype=None):
        a=np.empty(shape,dtype=object); a.fill(0); return a
    def eye(self,n):
        a=np.empty((n,n),dtype=object); a.fill(0)
        for i in range(n): a[i,i]=1
        return a
    def asarray(self,x,dtype=None): return x if isinstance(x,np.ndarray) else np.array(x,dtype=object)
def trig(name,pos_sin=True):
    c=sp.Symbol('c'+name,real=True); s=sp.Symbol('s'+name,positive=pos_sin,real=True); REL.append((s,1-c**2)); return Sym(c),Sym(s)
def symcell():
    a,b,c=[Sym(sp.Symbol(x,positive=True)) for x in 'abc']
    angs=[Angle(*trig(x),'deg') for x in ('al','be','ga')]
    return [a,b,c]+angs
def patch(mod):
    mod.n=NP(); mod.np=mod.n; mod.degrees=degrees
