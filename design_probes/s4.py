import sympy as sp, z3, time, sys
a,b,c,ca,sa,cb,sb,cg,sg,pi,h,k,l,v=sp.symbols('a b c ca sa cb sb cg sg pi h k l v')
gram=1-ca*ca-cb*cb-cg*cg+2*ca*cb*cg
V=a*b*c*v
astar=2*pi*b*c*sa/V; bstar=2*pi*a*c*sb/V; cstar=2*pi*a*b*sg/V
sbetstar=V/(a*b*c*sa*sg); sgamstar=V/(a*b*c*sa*sb)
cbetstar=(ca*cg-cb)/(sa*sg); cgamstar=(ca*cb-cg)/(sa*sb)
B=sp.Matrix([[astar,bstar*cgamstar,cstar*cbetstar],[0,bstar*sgamstar,-cstar*sbetstar*ca],[0,0,cstar*sbetstar*sa]])
G=sp.Matrix([[a*a,a*b*cg,a*c*cb],[a*b*cg,b*b,b*c*ca],[a*c*cb,b*c*ca,c*c]])
hv=sp.Matrix([h,k,l])
g2=(B*hv).dot(B*hv)
part1=(h*h/(a*a))*(1-ca*ca)+(k*k/(b*b))*(1-cb*cb)+(l*l/(c*c))*(1-cg*cg)+2*h*k*(ca*cb-cg)/(a*b)+2*h*l*(ca*cg-cb)/(a*c)+2*k*l*(cb*cg-ca)/(b*c)
part2=gram
obl={'sintl2': part1/(4*part2)-g2/(16*pi*pi)}
M=(B.T*B)*G
for i in range(3):
    for j in range(3):
        obl['BtBG%d%d'%(i,j)]=M[i,j]-(4*pi*pi if i==j else 0)
zv={s:z3.Real(str(s)) for s in (a,b,c,ca,sa,cb,sb,cg,sg,pi,h,k,l,v)}
def toz3(e):
    if e.is_Symbol: return zv[e]
    if e.is_Rational: return z3.RealVal(str(e))
    if e.is_Add:
        r=toz3(e.args[0])
        for x in e.args[1:]: r=r+toz3(x)
        return r
    if e.is_Mul:
        r=toz3(e.args[0])
        for x in e.args[1:]: r=r*toz3(x)
        return r
    if e.is_Pow:
        base=toz3(e.args[0]); n=int(e.args[1]); assert n>0
        r=base
        for _ in range(n-1): r=r*base
        return r
    raise Exception(e)
Z=zv
pre=[Z[a]>0,Z[b]>0,Z[c]>0,Z[sa]>0,Z[sb]>0,Z[sg]>0,Z[ca]*Z[ca]+Z[sa]*Z[sa]==1,Z[cb]*Z[cb]+Z[sb]*Z[sb]==1,Z[cg]*Z[cg]+Z[sg]*Z[sg]==1,Z[pi]>3.14159,Z[pi]<3.1416,Z[v]>=0,Z[v]*Z[v]==toz3(sp.expand(gram)),toz3(sp.expand(gram))>=z3.RealVal('0.02')]
for name,e in obl.items():
    num,den=sp.fraction(sp.together(e))
    num=sp.expand(num)
    print(name,'terms',len(num.args) if num.is_Add else 1,'den',den)
    for tac in ('default','qfnra-nlsat'):
        s=z3.Solver() if tac=='default' else z3.Tactic(tac).solver()
        s.set('timeout',60000); s.add(pre); s.add(toz3(num)!=0)
        t=time.time(); r=s.check(); print('  ',tac,r,round(time.time()-t,2)); sys.stdout.flush()
    if name in('sintl2','BtBG00','BtBG22'):
        s=z3.Solver(); s.add(pre); s.add(toz3(num)!=0)
        open(name+'_x.smt2','w').write('(set-logic QF_NRA)\n'+s.sexpr()+'(check-sat)\n')
