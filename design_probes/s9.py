import time, z3, numpy as np, sys
from eng import *
from xfab import tools
import xfab
xfab.CHECKS.activated=False
tools.n=symnp
Sym.__abs__=lambda s: Sym(z3.If(s.e>=0,s.e,-s.e))
def arctan2(s,c):
    r=(s*s+c*c).sqrt(); CTX.aux.append(r.e>0)
    return Angle(c/r,s/r,'rad')
Sym.arctan2=arctan2
Angle.__gt__=lambda self,o: False   # atan2 result never > pi
class HalfAngle:
    """twoth = 2*theta, primitive theta=(c,s)"""
    def __init__(self,c,s): self.c=c; self.s=s
    def __truediv__(self,k): assert k==2; return Angle(self.c,self.s,'rad')
    def sin(self): return 2*self.s*self.c
    def cos(self): return self.c*self.c-self.s*self.s
def mk(name): return Angle(Sym(z3.Real('c'+name)),Sym(z3.Real('s'+name)),'rad')
th=HalfAngle(Sym(z3.Real('cth')),Sym(z3.Real('sth')))
chi=mk('chi'); wed=mk('wed')
g=np.array([Sym(z3.Real('g%d'%i)) for i in range(3)],dtype=object)
pre=[a.c.e*a.c.e+a.s.e*a.s.e==1 for a in (th,chi,wed)]+[th.s.e>0,th.c.e>0, lift(g[0]*g[0]+g[1]*g[1]+g[2]*g[2])==th.s.e*th.s.e]
pre+=[chi.c.e>z3.RealVal('0.87'),wed.c.e>z3.RealVal('0.87'), th.s.e>z3.RealVal('0.004'), th.s.e<z3.RealVal('0.97')]
mode=sys.argv[1]
if mode=='nochi': pre+=[chi.s.e==0,chi.c.e==1]
if mode=='pyth': pre+=[chi.c.e==z3.Q(35,37),chi.s.e==z3.Q(12,37),wed.c.e==z3.Q(12,13),wed.s.e==z3.Q(5,13)]
# path: assert passes (|g|^2 - sin^2 < 1e-9) -> decisions; d<0 False
CTX.decisions=[True,False]; CTX.pos=0; CTX.pc=[]
om,eta=tools.find_omega_general(g,th,chi,wed)
print('decisions used',CTX.pos,len(CTX.pc), 'aux',len(CTX.aux))
for i in range(2):
    Om=tools.form_omega_mat_general(om[i],chi,wed)
    gt=np.dot(Om,g)
    s=z3.Solver(); s.set('timeout',120000); s.add(pre+CTX.aux+CTX.pc); s.add(lift(gt[0])!=-th.s.e*th.s.e)
    t=time.time(); r=s.check(); print(mode,'sol',i,r,round(time.time()-t,1),flush=True)
    if r==z3.sat:
        m=s.model(); print({str(d):m[d].as_decimal(6) if hasattr(m[d],'as_decimal') else m[d] for d in m.decls() if str(d) in ('cchi','schi','cwed','swed','cth','sth','g0','g1','g2')})
