import time, sys
from eng2 import *
import xfab; xfab.CHECKS.activated=False
from xfab import tools
patch(tools)
def short(e):
    t=str(e); return t if len(t)<80 else t[:80]+'...(%d chars)'%len(t)
cell=symcell()
t0=time.time()
B=tools.form_b_mat(cell)
rb=tools.b_to_cell(B)
print('b_to_cell lengths', [short(reduce(L(rb[i])-L(cell[i]))) for i in range(3)], 'cos', [short(reduce(L(rb[i].c)-L(cell[i].c))) for i in (3,4,5)], 'sin',[short(reduce(L(rb[i].s)-L(cell[i].s))) for i in (3,4,5)], round(time.time()-t0,1),'nREL',len(REL),flush=True)
# cell_invert twice
t0=time.time()
ci=tools.cell_invert(tools.cell_invert(cell))
print('cell_invert^2', [short(reduce(L(ci[i])-L(cell[i]))) for i in range(3)], [short(reduce(L(ci[i].c)-L(cell[i].c))) for i in (3,4,5)], round(time.time()-t0,1),'nREL',len(REL),flush=True)
# quaternion U -> ubi -> u
t0=time.time()
x,y,z=[sp.Symbol(n,real=True) for n in 'xyz']; w=sp.Symbol('w',real=True); REL.append((w,1-x**2-y**2-z**2))
w_,x_,y_,z_=Sym(w),Sym(x),Sym(y),Sym(z)
U=np.array([[w_*w_+x_*x_-y_*y_-z_*z_,2*(x_*y_-w_*z_),2*(x_*z_+w_*y_)],[2*(x_*y_+w_*z_),w_*w_-x_*x_+y_*y_-z_*z_,2*(y_*z_-w_*x_)],[2*(x_*z_-w_*y_),2*(y_*z_+w_*x_),w_*w_-x_*x_-y_*y_+z_*z_]],dtype=object)
ubi=tools.u_to_ubi(U,cell)
print('ubi built',round(time.time()-t0,1),flush=True)
c2=tools.ubi_to_cell(ubi)
print('ubi_to_cell', [short(reduce(L(c2[i])-L(cell[i]))) for i in range(3)], [short(reduce(L(c2[i].c)-L(cell[i].c))) for i in (3,4,5)], round(time.time()-t0,1),'nREL',len(REL),flush=True)
U2=tools.ubi_to_u(ubi)
print('ubi_to_u', [short(reduce(L(U2[i,j])-L(U[i,j]))) for i in range(3) for j in range(3)], round(time.time()-t0,1),flush=True)
