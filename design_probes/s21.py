import sys; sys.path.insert(0,'/repo')
import s6
from xfab import atomlib
atomlib.formfactor['N']=[12.2126,3.1322,2.0125,1.1663,0.0057,9.8933,28.9975,0.5826,-11.529]
atomlib.formfactor['CL']=[11.4604,7.1964,6.2556,1.6455,0.0104,1.1662,18.5194,47.7784,-9.5574]
for el in ('N','CL'): print(el,'pos',s6.run(el,'pos'),'mono',s6.run(el,'mono'))
