import sys; sys.path.insert(0,'/repo')
import numpy as np, itertools
from fractions import Fraction as Fr
from xfab import tools, sg, symmetry, detector, structure
import logging; logging.disable(logging.CRITICAL)
rng=np.random.default_rng(5)
# C04: group axioms for all settings
def snap(v):
    f=Fr(float(v)).limit_denominator(24)
    return (int(f*24)%24, abs(float(f)-v))
bad=[]
laue_order={'-1':2,'2/m':4,'mmm':8,'4/m':8,'4/mmm':16,'-3':6,'-3m':12,'-3m1':12,'-31m':12,'6/m':12,'6/mmm':24,'m-3':24,'m-3m':48}
for no in range(1,231):
    for cc in ('standard','rhombohedral'):
        if cc=='rhombohedral' and no not in (146,148,155,160,161,166,167): continue
        g=sg.sg(sgno=no,cell_choice=cc)
        ops=[]; maxerr=0
        for R,t in zip(g.rot,g.trans):
            tt=[snap(x) for x in t]; maxerr=max(maxerr,max(e for _,e in tt))
            ops.append((tuple(int(x) for x in np.array(R).flatten()),tuple(k for k,_ in tt)))
        S=set(ops)
        issues=[]
        if len(ops)!=g.nsymop: issues.append('len')
        if len(S)!=len(ops): issues.append('dup')
        if maxerr>2e-6: issues.append('snap%g'%maxerr)
        for A,ta in ops:
            A3=np.array(A).reshape(3,3)
            for B,tb in ops:
                C=A3@np.array(B).reshape(3,3); tc=tuple(int(x)%24 for x in A3@np.array(tb)+np.array(ta))
                if (tuple(C.flatten()),tc) not in S: issues.append('closure'); break
            if 'closure' in issues: break
        rots=set(o[0] for o in ops); uniq=[o[0] for o in ops[:g.nuniq]]
        if len(set(uniq))!=g.nuniq or set(uniq)!=rots: issues.append('nuniq')
        ntr=len([o for o in ops if o[0]==(1,0,0,0,1,0,0,0,1)])
        if g.nsymop!=g.nuniq*ntr: issues.append('nsymop')
        full=set(uniq)|set(tuple(-x for x in u) for u in uniq)
        if g.Laue not in laue_order or len(full)!=laue_order[g.Laue]: issues.append('laue %s %d'%(g.Laue,len(full)))
        if issues: bad.append((no,cc,g.name,issues))
print('C04 issues',bad)
# C12
for cs in range(1,8):
    P=symmetry.permutations(cs); Rr=symmetry.rotations(cs)
    cell={1:[3,4,5,80,95,100],2:[3,4,5,90,100,90],3:[3,4,5,90,90,90],4:[3,3,5,90,90,90],5:[3,3,5,90,90,120],6:[3,3,5,90,90,120],7:[3,3,3,90,90,90]}[cs]
    B=tools.form_b_mat(cell)
    err=max(abs(Rr[i]@B@P[i]-B).max() for i in range(len(P)))
    S=[tuple(np.round(p).astype(int).flatten()) for p in P]
    closed=all(tuple(np.round(P[i]@P[j]).astype(int).flatten()) in S for i in range(len(P)) for j in range(len(P)))
    orth=max(abs(r.T@r-np.eye(3)).max() for r in Rr); det=[round(np.linalg.det(r),6) for r in Rr]
    print('C12',cs,len(P),'pair err',err,'closed',closed,'orth',orth,set(det), 'cache',abs(symmetry.ROTATIONS[cs]-Rr).max())
