"""probe: real structure.StructureFactor on symbolic atom; trig-sum normal form; covariance F(hR)=F(h)e^{-2pi i h.t}"""
import sys, time, itertools; sys.path.insert(0, '/repo')
from fractions import Fraction
import numpy as np
import eng3
from eng3 import Field, setfield, Q, lift, NP, QQ
from xfab import structure, sg, tools
import logging; logging.disable(logging.CRITICAL)

NEXP = 600
names = ['x', 'y', 'z', 'pi', 'occ', 'mult', 'S', 'ff', 'fp', 'fpp', 'u', 'r2', 'r3'] + ['b%d' % i for i in range(6)] + ['E%d' % i for i in range(NEXP)]
f = Field(names, positive=('pi', 'r2', 'r3'), naux=2); setfield(f)
f.relation('r2', f.R(2)); f.relation('r3', f.R(3))
v = lambda n: Q(f.g[n], f.R.one)
XYZ = [f.idx[n] for n in 'xyz']; PI = f.idx['pi']
EXPS = {}
def exp_atom(arg):
    k = repr(arg)
    if k not in EXPS: EXPS[k] = len(EXPS)
    return v('E%d' % EXPS[k])
def const_trig(c):
    """(cos, sin) of 2*pi*c for c multiple of 1/24, exact in Q(r2,r3)"""
    c = Fraction(c) % 1; k = c * 24
    assert k.denominator == 1, c
    k = int(k)
    h = Fraction(1, 2); r2, r3 = v('r2'), v('r3')
    table = {0: (lift(1), lift(0)), 1: ((r2 * r3 + r2) / 4, (r2 * r3 - r2) / 4), 2: (r3 / 2, lift(1) / 2), 3: (r2 / 2, r2 / 2),
             4: (lift(1) / 2, r3 / 2), 5: ((r2 * r3 - r2) / 4, (r2 * r3 + r2) / 4), 6: (lift(0), lift(1))}
    q, r = divmod(k, 6)          # angle = q*90deg + r*15deg
    if r == 0: cs = {0: (1, 0), 1: (0, 1), 2: (-1, 0), 3: (0, -1)}[q]; return lift(cs[0]), lift(cs[1])
    c0, s0 = table[r]
    for _ in range(q): c0, s0 = -s0, c0
    return c0, s0
class Trig:
    """sum_m  A_m cos(2pi m.x) + B_m sin(2pi m.x),  m canonical integer vectors"""
    def __init__(s, d=None): s.d = d or {}
    @staticmethod
    def atom(m, c, kind):
        m = tuple(int(t) for t in m)
        sign = 1
        nz = [t for t in m if t != 0]
        if nz and nz[0] < 0: m = tuple(-t for t in m); c = -c; sign = -1
        cc, sc = const_trig(c)
        # cos(M+C)=cosM cosC - sinM sinC ; sin(M+C)=sinM cosC + cosM sinC ; with M=2pi m.x (after sign flip: cos even, sin odd)
        if kind == 'cos': A, B = cc, -sc
        else: A, B = sc * sign, cc * sign
        if not nz: return Trig({(0, 0, 0): (A, lift(0))})
        return Trig({m: (A, B)})
    def __add__(s, o):
        if isinstance(o, (int, float)) and o == 0: return s
        if not isinstance(o, Trig): o = Trig({(0, 0, 0): (lift(o), lift(0))})
        d = dict(s.d)
        for m, (a, b) in o.d.items():
            if m in d: d[m] = (d[m][0] + a, d[m][1] + b)
            else: d[m] = (a, b)
        return Trig(d)
    __radd__ = __add__
    def __neg__(s): return Trig({m: (-a, -b) for m, (a, b) in s.d.items()})
    def __sub__(s, o): return s + (-o if isinstance(o, Trig) else -lift(o))
    def __mul__(s, o):
        if isinstance(o, Trig): raise TypeError('trig*trig')
        o = lift(o); return Trig({m: (a * o, b * o) for m, (a, b) in s.d.items()})
    __rmul__ = __mul__
    def clean(s): return {m: ab for m, ab in s.d.items() if not (ab[0].iszero() and ab[1].iszero())}
def phase_of(q):
    """q = 2*pi*(m.x + c) ?  returns (m, c)"""
    assert q.d.is_ground
    den = Fraction(int(q.d.LC.numerator), int(q.d.LC.denominator))
    m = [Fraction(0)] * 3; c = Fraction(0)
    for mon, co in q.n.items():
        co = Fraction(int(co.numerator), int(co.denominator)) / den / 2
        assert mon[PI] == 1 and sum(mon) - 1 <= 1, mon
        others = [i for i, e in enumerate(mon) if e and i != PI]
        if not others: c += co
        else:
            assert others[0] in XYZ; m[XYZ.index(others[0])] += co
    assert all(t.denominator == 1 for t in m), m
    return m, c
class NPX(NP):
    def sin(self, q): m, c = phase_of(lift(q)); return Trig.atom(m, c, 'sin')
    def cos(self, q): m, c = phase_of(lift(q)); return Trig.atom(m, c, 'cos')
    def exp(self, q): return exp_atom(lift(q))
_qmul = Q.__mul__
def qmul(s, o):
    if isinstance(o, Trig): return o.__mul__(s)
    return _qmul(s, o)
Q.__mul__ = qmul; Q.__rmul__ = qmul
_qadd = Q.__add__
def qadd(s, o):
    if isinstance(o, Trig): return o.__add__(s)
    return _qadd(s, o)
Q.__add__ = qadd; Q.__radd__ = qadd
structure.n = NPX()
structure.tools.sintl = lambda cell, hkl: v('S')        # summary: same for h and hR (metric preserved)
structure.FormFactor = lambda t, s: v('ff')
tools_cell_invert = tools.cell_invert
def snapQ(t):
    fr = Fraction(float(t)).limit_denominator(24); assert abs(float(fr) - float(t)) < 2e-6; return lift(0) + Q(f.R(QQ(fr.numerator, fr.denominator)), f.R.one)
_sg_init = sg.sg.__init__
def sg_init(self, *a, **k):
    _sg_init(self, *a, **k)
    self.trans = np.array([[snapQ(t) for t in row] for row in self.trans], dtype=object)   # idealised 24ths
sg.sg.__init__ = sg_init

def run(sgname, adp_type, box=1):
    EXPS.clear()
    g = sg.sg(sgname=sgname)
    adp = v('u') if adp_type == 'Uiso' else [v('b%d' % i) for i in range(6)]
    if adp_type == 'Uani':
        # bypass Uij2betaij (cell dependent): supply beta directly through a stub, symmetric matrix of symbols
        structure.Uij2betaij = lambda a, cell: np.array([[a[0], a[5], a[4]], [a[5], a[1], a[3]], [a[4], a[3], a[2]]], dtype=object)
    atom = structure.atom_entry(label='A', atomtype='C', pos=np.array([v('x'), v('y'), v('z')], dtype=object), adp_type=adp_type, adp=adp, occ=v('occ'), symmulti=v('mult'))
    disp = {'C': [v('fp'), v('fpp')]}
    t0 = time.time(); nchk = 0; bad = []
    Fc = {}
    def F(h):
        h = tuple(int(t) for t in h)
        if h not in Fc: Fc[h] = structure.StructureFactor(np.array(h), [1, 1, 1, 90, 90, 90], sgname, [atom], disp)
        return Fc[h]
    for h in itertools.product(range(-box, box + 1), repeat=3):
        if h == (0, 0, 0): continue
        Fr, Fi = F(h)
        for R, t in zip(g.rot, g.trans):
            R = np.array(R).astype(int); h2 = np.dot(h, R)
            Fr2, Fi2 = F(h2)
            ht = sum(int(h[i]) * Fraction(int(lift(t[i]).n.LC.numerator) if lift(t[i]).n != 0 else 0, int(lift(t[i]).n.LC.denominator) if lift(t[i]).n != 0 else 1) / (Fraction(int(lift(t[i]).d.LC.numerator), int(lift(t[i]).d.LC.denominator))) for i in range(3))
            c, s = const_trig(ht)
            er = Fr * c + Fi * s; ei = Fi * c - Fr * s        # (Fr+iFi)(c - i s)
            dr = (Fr2 - er).clean(); di = (Fi2 - ei).clean(); nchk += 1
            if dr or di: bad.append((h, tuple(h2), len(dr), len(di)))
    print(sgname, adp_type, 'nsymop', g.nsymop, 'covariance checks', nchk, 'mismatching', len(bad), bad[:2], 'exp atoms', len(EXPS), 'wall %.1fs' % (time.time() - t0), flush=True)
for name in ('P21/c', 'P3', 'P4', 'P6122', 'Pnma'):
    for adp in ('Uiso', 'Uani'):
        run(name, adp)
run('Fd-3m', 'Uiso')
