import sys, time, z3, itertools
sys.path.insert(0,'/repo')
import numpy as np
from xfab import tools, sg
import logging; logging.disable(logging.CRITICAL)
class Abort(Exception): pass
class Explorer:
    def __init__(self, base):
        self.base=base; self.nq=0; self.tq=0.0
    def explore(self, fn, maxpaths=100000):
        work=[[]]; npaths=0; leaves=[]
        while work:
            prefix=work.pop()
            self.s=z3.Solver(); self.s.add(self.base)   # fresh solver per path (simple)
            self.prefix=prefix; self.pos=0; self.trace=[]; self.work=work; self.pc=[]
            try:
                res=fn(self)
            except Abort: continue
            npaths+=1; leaves.append((list(self.trace),res))
            if npaths>=maxpaths: break
        return leaves
    def decide(self, cond):
        if self.pos<len(self.prefix):
            d=self.prefix[self.pos]
        else:
            t=time.time()
            self.s.push(); self.s.add(cond); rt=self.s.check(); self.s.pop()
            self.s.push(); self.s.add(z3.Not(cond)); rf=self.s.check(); self.s.pop()
            self.nq+=2; self.tq+=time.time()-t
            ft,ff=(rt==z3.sat),(rf==z3.sat)
            if ft and ff:
                self.work.append(self.trace+[False]); d=True
            elif ft: d=True
            elif ff: d=False
            else: raise Abort()
        self.pos+=1; self.trace.append(d)
        c=cond if d else z3.Not(cond); self.s.add(c); self.pc.append(c)
        return d
EX=None
class Q:  # squared-norm value  (represents stl via 4*stl^2)
    def __init__(s,e): s.e=e
    def __le__(s,o): return EX.decide(s.e<=o.e)
    def __gt__(s,o): return EX.decide(s.e>o.e)
    def __mul__(s,k): return Q(s.e*z3.RealVal(str(k))*z3.RealVal(str(k)))
    def __float__(s): raise TypeError
g=[z3.Real('g%d'%i) for i in range(6)]  # g11 g22 g33 g12 g13 g23
M=z3.Real('M'); m=z3.Real('m')
def qform(h):
    h=[int(x) for x in h]
    return h[0]*h[0]*g[0]+h[1]*h[1]*g[1]+h[2]*h[2]*g[2]+2*h[0]*h[1]*g[3]+2*h[0]*h[2]*g[4]+2*h[1]*h[2]*g[5]
def stub_sintl(cell,hkl): return Q(qform(hkl))
def run(no,cc,N,lin):
    global EX
    spg=sg.sg(sgno=no,cell_choice=cc)
    base=[M>0,m>=0,m<M]+lin
    # PD via minors
    base+= [g[0]>0, g[0]*g[1]-g[3]*g[3]>0,
            g[0]*(g[1]*g[2]-g[5]*g[5])-g[3]*(g[3]*g[2]-g[5]*g[4])+g[4]*(g[3]*g[5]-g[1]*g[4])>0]
    for h in itertools.product(range(-N-1,N+2),repeat=3):
        if max(abs(x) for x in h)==N+1: base.append(qform(h)>M*z3.RealVal('1.21'))
    EX=Explorer(base)
    tools.sintl=stub_sintl
    cell=[1,1,1,90,91,92]
    def fn(ex):
        H=tools.genhkl_base(cell,spg.syscond,Q(m),Q(M),crystal_system=spg.crystal_system,Laue_class=spg.Laue,cell_choice=spg.cell_choice,output_stl=None)
        return None
    t=time.time()
    leaves=EX.explore(fn, maxpaths=int(sys.argv[1]) if len(sys.argv)>1 else 300)
    print(no,cc,spg.Laue,'N',N,'paths',len(leaves),'queries',EX.nq,'solver s',round(EX.tq,1),'wall',round(time.time()-t,1),'maxdepth',max(len(l[0]) for l in leaves),flush=True)
z=lambda *idx:[g[i]==0 for i in idx]
import sys
which=sys.argv[2]
if which=='mono1': run(10,'standard',1,z(3,5))
if which=='tric1': run(2,'standard',1,[])
if which=='ortho2': run(47,'standard',2,z(3,4,5))
if which=='tetra2': run(123,'standard',2,[g[0]==g[1]]+z(3,4,5))
if which=='rhomb1': run(166,'rhombohedral',1,[g[0]==g[1],g[1]==g[2],g[3]==g[4],g[4]==g[5]])
if which=='hex2lin': 
    # hexagonal family: PD follows from g11>0,g33>0 on this family -> drop minors (handled inside run by flag)
    run(191,'standard',2,[g[0]==g[1],g[3]*2==g[0]]+z(4,5))
