import cvc5, time, sys
sys.path.insert(0,'/repo')
from cvc5 import Kind
from xfab import atomlib
from fractions import Fraction
def run(el, what):
    d=atomlib.formfactor[el]
    tm=cvc5.TermManager() if hasattr(cvc5,'TermManager') else None
    s=cvc5.Solver(tm) if tm else cvc5.Solver()
    mk=tm if tm else s
    s.setLogic('QF_NRAT'); s.setOption('tlimit-per','20000')
    R=mk.getRealSort(); x=mk.mkConst(R,'s')
    def rv(f):
        fr=Fraction(str(f)); return mk.mkReal(fr.numerator,fr.denominator)
    x2=mk.mkTerm(Kind.MULT,x,x)
    terms=[]; dterms=[]
    for i in range(4):
        e=mk.mkTerm(Kind.EXPONENTIAL, mk.mkTerm(Kind.NEG, mk.mkTerm(Kind.MULT, rv(d[i+4]), x2)))
        terms.append(mk.mkTerm(Kind.MULT, rv(d[i]), e))
        dterms.append(mk.mkTerm(Kind.MULT, rv(d[i]), rv(d[i+4]), e))
    f=mk.mkTerm(Kind.ADD,*terms, rv(d[8]))
    df=mk.mkTerm(Kind.ADD,*dterms)
    s.assertFormula(mk.mkTerm(Kind.GEQ,x,mk.mkReal(0))); s.assertFormula(mk.mkTerm(Kind.LEQ,x,mk.mkReal(2)))
    if what=='pos': s.assertFormula(mk.mkTerm(Kind.LEQ,f,mk.mkReal(0)))
    else: s.assertFormula(mk.mkTerm(Kind.LT,df,mk.mkReal(0)))
    t=time.time(); r=s.checkSat(); return str(r), round(time.time()-t,2)
if __name__=="__main__":
  for el in ("C","O",'N','CL','FE','AU','PU','H'):
    print(el, [ (atomlib.formfactor[el][i]) for i in (0,1,2,3,8)], run(el,'pos'), run(el,'mono'), flush=True)
