import time, sys
from eng2 import *
import xfab; xfab.CHECKS.activated=False
from xfab import tools
patch(tools)
t0=time.time()
cell=symcell()
A=tools.form_a_mat(cell); B=tools.form_b_mat(cell)
print('REL',REL)
# a_to_cell round trip
rc=tools.a_to_cell(A)
print('a_to_cell lengths', [reduce(L(rc[i])-L(cell[i])) for i in range(3)], 'cos', [reduce(L(rc[i].c)-L(cell[i].c)) for i in (3,4,5)], round(time.time()-t0,1)); 
t0=time.time()
rb=tools.b_to_cell(B)
print('b_to_cell lengths', [reduce(L(rb[i])-L(cell[i])) for i in range(3)], 'cos', [reduce(L(rb[i].c)-L(cell[i].c)) for i in (3,4,5)], round(time.time()-t0,1)); 
t0=time.time()
eps=[Sym(sp.Symbol('e%d'%i,real=True)) for i in range(6)]
Bs=tools.epsilon_to_b(eps,cell)
e2=tools.b_to_epsilon(Bs,cell)
print('eps roundtrip', [reduce(L(e2[i])-L(eps[i])) for i in range(6)], round(time.time()-t0,1))
t0=time.time()
Bo=tools.epsilon_to_b_old(eps,cell)
print('eps_to_b_old built',round(time.time()-t0,1))
e3=tools.b_to_epsilon_old(Bo,cell)
print('old roundtrip', [reduce(L(e3[i])-L(eps[i])) for i in range(6)], round(time.time()-t0,1))
