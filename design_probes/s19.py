"""probe: find_omega_general (real code) on eng3 proxies; soundness residuals + completeness query"""
import sys, time, z3
from fractions import Fraction
import eng3
from eng3 import *
import xfab; xfab.CHECKS.activated=False
from xfab import tools
exec(open('s17.py').read().split("# ---------- explorer")[0].split("# ---------- z3 lowering")[1])
mode=sys.argv[1]
names=['cth','sth','cchi','schi','cw','sw','g0','g1','g2','co','so','pi']
f=Field(names,positive=('pi','sth','cth'),naux=6); setfield(f)
for c,s in (('cth','sth'),('cchi','schi'),('cw','sw'),('co','so')): f.relation(s,1-f.g[c]**2)
f.relation('g2', f.g['sth']**2-f.g['g0']**2-f.g['g1']**2)
v=lambda n: Q(f.g[n],f.R.one)
DEC=[]
class SBq:
    def __init__(s,c,const=None): s.c=c; s.const=const
    def __bool__(s):
        if s.const is not None: return s.const
        d=DEC.pop(0); PC.append(s.c if d else z3.Not(s.c)); return d
PC=[]
def cmpq(op):
    def fn(s,o):
        o=lift(o) if not isinstance(o,Q) else o
        dlt=s-o
        if dlt.n.is_ground and dlt.d.is_ground:
            val=Fraction(int(dlt.n.LC.numerator),int(dlt.n.LC.denominator)) if dlt.n!=0 else Fraction(0)
            return SBq(None,{'lt':val<0,'le':val<=0,'gt':val>0,'ge':val>=0}[op])
        a,b=qz(s),qz(o); return SBq({'lt':a<b,'le':a<=b,'gt':a>b,'ge':a>=b}[op])
    return fn
Q.__lt__=cmpq('lt'); Q.__le__=cmpq('le'); Q.__gt__=cmpq('gt'); Q.__ge__=cmpq('ge')
Q.__abs__=lambda s: s if s.iszero() else (_ for _ in ()).throw(TypeError('abs'))
class Ang:
    def __init__(s,c,sn): s.c,s.s=c,sn
    def cos(s): return s.c
    def sin(s): return s.s
    def __gt__(s,o): return False
    def __truediv__(s,k): raise TypeError
class Two:
    def __init__(s,c,sn): s.c,s.s=c,sn
    def __truediv__(s,k): assert k==2; return Ang(s.c,s.s)
    def sin(s): return 2*s.s*s.c
    def cos(s): return s.c*s.c-s.s*s.s
def arctan2(y,x):
    r=(y*y+x*x).sqrt(); return Ang(x/r,y/r)
Q.arctan2=arctan2
class NP3(NP):
    def arctan2(self,y,x): return arctan2(lift(y),lift(x))
    def sqrt(self,x): return x.sqrt()
    def cos(self,x): return x.cos()
    def sin(self,x): return x.sin()
tools.n=NP3()
th=Two(v('cth'),v('sth'))
chi=Ang(v('cchi'),v('schi')) if mode!='nochi' else Ang(lift(1),lift(0))
wed=Ang(v('cw'),v('sw'))
g=np.array([v('g0'),v('g1'),v('g2')],dtype=object)
DEC=[False]   # d<0 False
t0=time.time()
om,eta=tools.find_omega_general(g,th,chi,wed)
print(mode,'executed %.1fs'%(time.time()-t0),'aux',{k:str(x)[:70] for k,x in f.auxdef.items()},flush=True)
sth=v('sth'); s2t=th.sin()
for i in range(2):
    Om=tools.form_omega_mat_general(om[i],chi,wed); gt=np.dot(Om,g)
    res=[gt[0]+sth*sth, gt[1]+s2t*eta[i].s/2, gt[2]-s2t*eta[i].c/2]
    print(' sol',i,['ZERO' if r.iszero() else 'NONZERO(%d terms)'%len(r.n) for r in res],'%.1fs'%(time.time()-t0),flush=True)
# completeness
op=Ang(v('co'),v('so'))
Om=tools.form_omega_mat_general(op,chi,wed); gt=np.dot(Om,g)
E=gt[0]+sth*sth
base=[zvar('pi')>3,zvar('cth')>z3.RealVal('0.26'),zvar('sth')>z3.RealVal('0.004'),zvar('cw')>z3.RealVal('0.87')]+([zvar('cchi')>z3.RealVal('0.87')] if mode!='nochi' else [])
same=lambda k: z3.And(qz(om[k].c)==zvar('co'),qz(om[k].s)==zvar('so'))
# denominators of the returned cos/sin must be non-zero and discriminant margin
dens=[qz(Q(om[k].c.d,f.R.one))!=0 for k in range(2)]+[qz(Q(om[k].s.d,f.R.one))!=0 for k in range(2)]
s=z3.Solver(); s.set('timeout',200000); s.add(base+relations()+PC+dens); s.add(qz(E)==0); s.add(z3.Not(z3.Or(same(0),same(1))))
t=time.time(); r=s.check(); print(' completeness (given d>=0 path): exists other omega?',r,'%.1fs'%(time.time()-t),flush=True)
if r==z3.sat:
    m=s.model(); print('   model',{n:m.eval(zvar(n)).as_decimal(6) for n in names if n in ZV})
# d<0 path: no omega satisfies
PC2=[z3.Not(c) for c in PC[:1]]
s=z3.Solver(); s.set('timeout',120000); s.add(base+[c for c in relations() if 'u0' not in str(c)]+PC2); s.add(qz(E)==0)
t=time.time(); r=s.check(); print(' no-solution path: exists omega anyway?',r,'%.1fs'%(time.time()-t),flush=True)
