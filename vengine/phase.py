"""Trig-sum support for structure factors: fractional coordinates as `Turn` objects (value in turns = integer combination of
symbolic coordinates plus a rational constant); cos/sin of 2*pi*Turn expand to polynomials in (cos 2pi x, sin 2pi x) pairs with
exact values for multiples of 1/12 turn in Q(sqrt 3); exp() of symbolic arguments become pooled generators keyed by their
normalised argument (congruence only)."""
from fractions import Fraction

import numpy as np

from .field import Q, lift, F, EngineError, UnsupportedInShim

SNAP_DEN = 12
SNAP_TOL = Fraction(1, 10 ** 5)


class Turn:
    """sum_i m_i * X_i + c   (turns).  X_i are coordinate names with generator pairs ('c'+name, 's'+name)."""
    __slots__ = ('m', 'c')

    def __init__(self, m=None, c=0):
        self.m = dict(m or {})
        self.c = Fraction(c) if not isinstance(c, Fraction) else c

    @staticmethod
    def coord(name):
        return Turn({name: Fraction(1)}, 0)

    def _co(self, o):
        if isinstance(o, Turn):
            return o
        if isinstance(o, np.ndarray):
            return None
        if isinstance(o, (int, np.integer)):
            return Turn({}, Fraction(int(o)))
        if isinstance(o, (float, np.floating)):
            return Turn({}, Fraction(repr(float(o))))
        if isinstance(o, Fraction):
            return Turn({}, o)
        if isinstance(o, Q):
            c = o.const()
            if c is not None:
                return Turn({}, c)
        return None

    def __add__(self, o):
        o2 = self._co(o)
        if o2 is None:
            return NotImplemented
        m = dict(self.m)
        for k, v in o2.m.items():
            m[k] = m.get(k, 0) + v
            if m[k] == 0:
                del m[k]
        return Turn(m, self.c + o2.c)
    __radd__ = __add__

    def __sub__(self, o):
        o2 = self._co(o)
        if o2 is None:
            return NotImplemented
        return self + (-o2)

    def __rsub__(self, o):
        o2 = self._co(o)
        if o2 is None:
            return NotImplemented
        return o2 + (-self)

    def __neg__(self):
        return Turn({k: -v for k, v in self.m.items()}, -self.c)

    def __mul__(self, o):
        if isinstance(o, np.ndarray):
            return NotImplemented
        if isinstance(o, Turn):
            raise UnsupportedInShim('Turn*Turn')
        if isinstance(o, Q):
            c = o.const()
            if c is None:
                # 2*pi*Turn -> phase
                from .angle import pi_power
                rk = pi_power(o)
                if rk is not None and rk[1] == 1:
                    return Phase(self * (rk[0] / 2))
                raise UnsupportedInShim('Turn * symbolic')
            o = c
        if isinstance(o, (float, np.floating)):
            o = Fraction(repr(float(o)))
        if isinstance(o, (int, np.integer)):
            o = Fraction(int(o))
        if not isinstance(o, Fraction):
            return NotImplemented
        return Turn({k: v * o for k, v in self.m.items() if v * o != 0}, self.c * o)
    __rmul__ = __mul__

    def __repr__(self):
        return 'Turn(%s + %s)' % (' + '.join('%s*%s' % (v, k) for k, v in self.m.items()), self.c)


def _snap(c):
    k = round(c * SNAP_DEN)
    if abs(c - Fraction(k, SNAP_DEN)) > SNAP_TOL * (1 + abs(c)):
        raise UnsupportedInShim('phase constant %s is not a multiple of 1/%d turn' % (c, SNAP_DEN))
    return k % SNAP_DEN


def _const_cs(k):
    """cos, sin of k/12 turn (30 degree steps) in Q(sqrt 3)"""
    f = F()
    r3 = f.var('r3') if 'r3' in f.idx else None
    half = Fraction(1, 2)

    def h3():
        if r3 is None:
            raise UnsupportedInShim('sqrt(3) generator r3 missing in field')
        return r3 * half
    table = {0: (1, 0), 1: (h3, half), 2: (half, h3), 3: (0, 1), 4: (-half, h3), 5: ('-h3', half), 6: (-1, 0), 7: ('-h3', -half),
             8: (-half, '-h3'), 9: (0, -1), 10: (half, '-h3'), 11: (h3, -half)}
    c, s = table[k]

    def ev(x):
        if x == '-h3':
            return -h3()
        if callable(x):
            return x()
        return lift(x)
    return ev(c), ev(s)


_MULT_CACHE = {}


def _multiple(name, k):
    """(cos, sin) of k * 2*pi*X for coordinate X (k integer), via the addition formulas"""
    f = F()
    key = (id(f), name, k)
    if key in _MULT_CACHE:
        return _MULT_CACHE[key]
    c1, s1 = f.var('c' + name), f.var('s' + name)
    if k == 0:
        r = (lift(1), lift(0))
    elif k < 0:
        c, s = _multiple(name, -k)
        r = (c, -s)
    elif k == 1:
        r = (c1, s1)
    else:
        c, s = _multiple(name, k - 1)
        r = (c * c1 - s * s1, s * c1 + c * s1)
    _MULT_CACHE[key] = r
    return r


class Phase:
    """2*pi*Turn : supports cos() and sin()"""
    __slots__ = ('t',)

    def __init__(self, t):
        self.t = t

    def cs(self):
        c, s = _const_cs(_snap(self.t.c))
        for name, k in sorted(self.t.m.items()):
            if k.denominator != 1:
                raise UnsupportedInShim('non-integer multiple %s of coordinate %s in a phase' % (k, name))
            ck, sk = _multiple(name, int(k))
            c, s = c * ck - s * sk, s * ck + c * sk
        return c, s

    def cos(self):
        return self.cs()[0]

    def sin(self):
        return self.cs()[1]


class ExpPool:
    """exp(arg) -> generator 'E<k>' keyed by the normalised argument"""

    def __init__(self, f, prefix='E', size=64):
        self.f = f
        self.names = [n for n in f.names if n.startswith(prefix) and n[len(prefix):].isdigit()]
        self.used = {}
        self.args = {}

    def exp(self, x):
        if isinstance(x, (int, float)) and x == 0:
            return 1
        x = lift(x)
        if x.iszero():
            return lift(1)
        key = (x.n, x.d)
        g = self.used.get(key)
        if g is None:
            if len(self.used) >= len(self.names):
                raise EngineError('exp pool exhausted (%d)' % len(self.names))
            nm = self.names[len(self.used)]
            g = self.f.var(nm)
            self.used[key] = g
            self.args[nm] = x
        return g
