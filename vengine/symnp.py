"""symnp = real numpy + overrides for what numpy cannot do on object arrays of proxies."""
import contextlib
from fractions import Fraction

import numpy as np

from .field import Q, lift, F, EngineError, UnsupportedInShim
from .angle import Angle
from . import angle as ang
from . import explore


def is_sym(x):
    return isinstance(x, (Q, Angle)) or type(x).__name__ in ('Turn', 'Phase', 'ZNum', 'SqrtSym', 'T')


def _has_sym(a):
    if is_sym(a):
        return True
    if isinstance(a, np.ndarray):
        return a.dtype == object
    if isinstance(a, (list, tuple)):
        return any(_has_sym(x) for x in a)
    return False


def oarray(x):
    if isinstance(x, np.ndarray) and x.dtype == object:
        return x
    a = np.empty(np.shape(_shape_probe(x)), dtype=object)
    _fill(a, x)
    return a


def _shape_probe(x):
    """nested list structure with proxies replaced by 0 (so that np.shape works)"""
    if is_sym(x):
        return 0
    if isinstance(x, np.ndarray):
        return np.zeros(x.shape)
    if isinstance(x, (list, tuple)):
        return [_shape_probe(y) for y in x]
    return 0


def _fill(a, x):
    if a.ndim == 0:
        a[()] = x
        return
    for i in range(a.shape[0]):
        xi = x[i]
        if a.ndim == 1:
            a[i] = xi.item() if isinstance(xi, np.generic) else xi
        else:
            _fill(a[i], xi)


def _map(fn, x):
    if isinstance(x, np.ndarray):
        out = np.empty(x.shape, dtype=object)
        for idx in np.ndindex(x.shape):
            out[idx] = fn(x[idx])
        return out
    if isinstance(x, (list, tuple)):
        return _map(fn, oarray(x))
    return fn(x)


def _cos1(x):
    if isinstance(x, Angle) or type(x).__name__ == 'Phase':
        return x.cos()
    if isinstance(x, Q):
        a = _q_as_angle(x)
        return a.cos()
    return np.cos(x)


def _sin1(x):
    if isinstance(x, Angle) or type(x).__name__ == 'Phase':
        return x.sin()
    if isinstance(x, Q):
        a = _q_as_angle(x)
        return a.sin()
    return np.sin(x)


def _q_as_angle(x):
    """a Q that is a rational multiple of pi (k*pi/2) or 0 as an exact Angle"""
    c = x.const()
    if c is not None and c == 0:
        return Angle(1, 0, 0, 0)
    rk = ang.pi_power(x)
    if rk is not None and rk[1] == 1 and (rk[0] * 2).denominator == 1:
        k = int(rk[0] * 2) % 4
        cs = [(1, 0), (0, 1), (-1, 0), (0, -1)][k]
        return Angle(cs[0], cs[1], rk[0], rk[0])
    if rk is not None and rk[1] == 1 and (rk[0] * 6).denominator == 1 and F() is not None and 'r3' in F().idx:
        from .phase import _const_cs
        c, s = _const_cs(int(rk[0] * 6) % 12)
        return Angle(c, s, rk[0], rk[0])
    raise UnsupportedInShim('cos/sin of a non-angle symbolic value %r' % (x,))


def _sqrt1(x):
    if isinstance(x, Q):
        return x.sqrt()
    if isinstance(x, (int, float, np.number)) and not _ctx_symbolic():
        return np.sqrt(x)
    if isinstance(x, (int, float, np.number, Fraction)):
        return lift(x).sqrt() if F() is not None else np.sqrt(x)
    raise UnsupportedInShim('sqrt of %r' % type(x))


def _ctx_symbolic():
    return F() is not None


def _abs1(x):
    return abs(x)


class _LinAlg:
    @staticmethod
    def inv(A):
        A = oarray(A) if not isinstance(A, np.ndarray) else A
        if A.dtype != object:
            return np.linalg.inv(A)
        n = A.shape[0]
        if A.shape == (3, 3):
            def c(i, j):
                return A[(i + 1) % 3, (j + 1) % 3] * A[(i + 2) % 3, (j + 2) % 3] - A[(i + 1) % 3, (j + 2) % 3] * A[(i + 2) % 3, (j + 1) % 3]
            det = A[0, 0] * c(0, 0) + A[0, 1] * c(0, 1) + A[0, 2] * c(0, 2)
            out = np.empty((3, 3), dtype=object)
            for i in range(3):
                for j in range(3):
                    out[i, j] = c(j, i) / det
            return out
        if A.shape == (2, 2):
            det = A[0, 0] * A[1, 1] - A[0, 1] * A[1, 0]
            out = np.empty((2, 2), dtype=object)
            out[0, 0] = A[1, 1] / det
            out[0, 1] = -A[0, 1] / det
            out[1, 0] = -A[1, 0] / det
            out[1, 1] = A[0, 0] / det
            return out
        raise UnsupportedInShim('inv of shape %s' % (A.shape,))

    @staticmethod
    def det(A):
        if isinstance(A, np.ndarray) and A.dtype != object:
            return np.linalg.det(A)
        A = oarray(A)
        if A.shape == (3, 3):
            return (A[0, 0] * (A[1, 1] * A[2, 2] - A[1, 2] * A[2, 1])
                    - A[0, 1] * (A[1, 0] * A[2, 2] - A[1, 2] * A[2, 0])
                    + A[0, 2] * (A[1, 0] * A[2, 1] - A[1, 1] * A[2, 0]))
        if A.shape == (2, 2):
            return A[0, 0] * A[1, 1] - A[0, 1] * A[1, 0]
        raise UnsupportedInShim('det of shape %s' % (A.shape,))

    @staticmethod
    def norm(v, axis=None):
        if isinstance(v, np.ndarray) and v.dtype != object:
            return np.linalg.norm(v, axis=axis)
        v = oarray(v)
        if v.ndim != 1:
            raise UnsupportedInShim('norm of ndim %d' % v.ndim)
        acc = 0
        for x in v:
            acc = acc + x * x
        return _sqrt1(lift(acc))

    qr = None     # installed per harness (stub with contract)

    @staticmethod
    def eig(A):
        raise UnsupportedInShim('linalg.eig')


class SymNP:
    """module-like object handed to xfab modules as `n` / `np`"""

    def __init__(self):
        self.linalg = _LinAlg()
        self.random = np.random
        self.ndarray = np.ndarray

    def __getattr__(self, k):
        return getattr(np, k)

    @property
    def pi(self):
        f = F()
        if f is not None and 'pi' in f.idx:
            return Q(f.g['pi'], f.R.one, norm=False)
        return np.pi

    # constructors ---------------------------------------------------------------------------
    def zeros(self, shape, dtype=None):
        a = np.empty(shape, dtype=object)
        a.fill(0)
        return a

    def empty(self, shape, dtype=None):
        a = np.empty(shape, dtype=object)
        a.fill(0)
        return a

    def eye(self, n, m=None, dtype=None):
        m = n if m is None else m
        a = np.empty((n, m), dtype=object)
        a.fill(0)
        for i in range(min(n, m)):
            a[i, i] = 1
        return a

    def array(self, x, dtype=None, **kw):
        if _has_sym(x):
            return oarray(x).copy() if isinstance(x, np.ndarray) else oarray(x)
        if dtype is float or dtype is None:
            a = np.array(x, **kw)
            if a.dtype == object or not _ctx_symbolic():
                return a
            # keep exactness: ints/floats stay python numbers inside an object array
            return a.astype(object) if a.dtype.kind in 'fiu' else a
        return np.array(x, dtype=dtype, **kw)

    def asarray(self, x, dtype=None, **kw):
        if isinstance(x, np.ndarray) and x.dtype == object:
            return x
        if _has_sym(x):
            return oarray(x)
        a = np.asarray(x)
        if _ctx_symbolic() and a.dtype.kind in 'fiu':
            return a.astype(object)
        return a

    def ascontiguousarray(self, x):
        return x

    # elementwise ----------------------------------------------------------------------------
    def cos(self, x):
        return _map(_cos1, x)

    def sin(self, x):
        return _map(_sin1, x)

    def tan(self, x):
        return _map(lambda a: a.tan() if isinstance(a, Angle) else np.tan(a), x)

    def sqrt(self, x):
        return _map(_sqrt1, x)

    def abs(self, x):
        return _map(_abs1, x)
    absolute = abs

    exp_pool = None

    def exp(self, x):
        def one(a):
            if isinstance(a, Q) and self.exp_pool is not None:
                return self.exp_pool.exp(a)
            if hasattr(a, 'exp') and not isinstance(a, (float, int, np.number)):
                return a.exp()
            return np.exp(a)
        return _map(one, x)

    def arccos(self, x):
        return _map(lambda a: ang.arccos(a) if isinstance(a, (Q, int, Fraction)) or _ctx_symbolic() else np.arccos(a), x)

    def arcsin(self, x):
        return _map(lambda a: ang.arcsin(a) if isinstance(a, (Q, int, Fraction)) or _ctx_symbolic() else np.arcsin(a), x)

    def arctan(self, x):
        return _map(lambda a: ang.arctan(a) if isinstance(a, (Q, int, Fraction)) or _ctx_symbolic() else np.arctan(a), x)

    def arctan2(self, y, x):
        if is_sym(y) or is_sym(x) or _ctx_symbolic():
            return ang.arctan2(y, x)
        return np.arctan2(y, x)

    # reductions / products ------------------------------------------------------------------
    def dot(self, a, b):
        a = a if isinstance(a, np.ndarray) else self.asarray(a)
        b = b if isinstance(b, np.ndarray) else self.asarray(b)
        return np.dot(a, b)

    def sum(self, x, axis=None, **kw):
        x = x if isinstance(x, np.ndarray) else self.asarray(x)
        return np.sum(x, axis=axis, **kw)

    def cross(self, a, b):
        a = self.asarray(a)
        b = self.asarray(b)
        out = np.empty(3, dtype=object)
        out[0] = a[1] * b[2] - a[2] * b[1]
        out[1] = a[2] * b[0] - a[0] * b[2]
        out[2] = a[0] * b[1] - a[1] * b[0]
        return out

    def transpose(self, a, *args):
        a = a if isinstance(a, np.ndarray) else self.asarray(a)
        return np.transpose(a, *args)

    def allclose(self, a, b, rtol=1e-5, atol=1e-8):
        """numpy's documented |a-b| <= atol + rtol*|b| as a formula (no forking)"""
        import z3
        a = self.asarray(a)
        b = np.broadcast_to(self.asarray(b), a.shape) if np.shape(b) != a.shape else self.asarray(b)
        zc = explore.ctx().zc
        parts = []
        allconst = True
        for idx in np.ndindex(a.shape):
            if a[idx] is b[idx]:
                continue
            if type(a[idx]).__name__ == 'Angle' or type(b[idx]).__name__ == 'Angle':
                parts.append(self._angle_close(a[idx], b[idx], rtol, atol, zc))
                continue
            bl = lift(b[idx])
            d = lift(a[idx]) - bl
            if d.const() is not None and d.const() == 0:
                continue
            bb = bl.const()
            if bb is None:
                # symbolic reference: |d| <= atol + rtol*|b| with the sign of b as a case split inside the formula
                ta = lift(Fraction(repr(atol)))
                tr = lift(Fraction(repr(rtol))) * bl
                tp, tn = ta + tr, ta - tr
                parts.append(z3.Or(z3.And(zc.cmp0(bl, '>='), zc.cmp0(d - tp, '<='), zc.cmp0(d + tp, '>=')),
                                   z3.And(zc.cmp0(bl, '<'), zc.cmp0(d - tn, '<='), zc.cmp0(d + tn, '>='))))
                continue
            tol = Fraction(repr(atol)) + Fraction(repr(rtol)) * abs(bb)
            parts.append(z3.And(zc.cmp0(d - lift(tol), '<='), zc.cmp0(d + lift(tol), '>=')))
        f = z3.simplify(z3.And(parts))
        if z3.is_true(f):
            return True
        if z3.is_false(f):
            return False
        return explore.SymBool(f)

    def _angle_close(self, x, y, rtol, atol, zc):
        """|x - y| <= atol + rtol*|y| for angle-valued entries (only mutated code gets here: the unchanged tree never hands angles to
        allclose).  Approximation, stated in the stubs: |y| is taken as 90 deg (pi/2 rad) in the tolerance, |x-y| < pi is assumed, and
        cos t = 1 - t^2/2 for the tiny tolerance t.  Any counterexample that depends on this is replayed on the real code before it is reported."""
        import math
        from .angle import Angle
        def cs(v, like):
            if isinstance(v, Angle):
                return v.c, v.s
            val = float(v) * (math.pi / 180.0 if like.is_deg() else 1.0)
            return lift(Fraction(repr(round(math.cos(val), 15)))), lift(Fraction(repr(round(math.sin(val), 15))))
        like = x if isinstance(x, Angle) else y
        cx, sx = cs(x, like)
        cy, sy = cs(y, like)
        deg = like.is_deg()
        t = (atol + rtol * (90.0 if deg else math.pi / 2)) * (math.pi / 180.0 if deg else 1.0)
        K = 1 - Fraction(repr(t)) ** 2 / 2
        return zc.cmp0(cx * cy + sx * sy - lift(K), '>=')

    def mod(self, x, m):
        def one(a):
            if type(a).__name__ == 'ZNum':
                import z3
                from .zprox import ZNum
                if m != 1:
                    raise UnsupportedInShim('mod by %r' % (m,))
                t = a.t if a.t.is_real() else z3.ToReal(a.t)
                return ZNum(t - z3.ToReal(z3.ToInt(t)))
            return np.mod(a, m)
        return _map(one, x)

    def round(self, x, *a):
        def one(v):
            if type(v).__name__ == 'ZNum':
                import z3
                from .zprox import ZNum
                t = v.t if v.t.is_real() else z3.ToReal(v.t)
                return ZNum(z3.ToReal(z3.ToInt(t + z3.RealVal('1/2'))))      # ties are measure-zero for the positions considered
            return np.round(v, *a)
        return _map(one, x)

    def clip(self, x, lo, hi):
        raise UnsupportedInShim('clip on symbolic values')

    def max(self, x, *a, **k):
        x = self.asarray(x)
        if x.dtype == object and any(is_sym(v) for v in x.flat):
            raise UnsupportedInShim('max on symbolic values')
        return np.max(x, *a, **k)


SYMNP = SymNP()


@contextlib.contextmanager
def patched(*mods, extra=None):
    """rebind the module globals through which xfab reaches numpy / math / builtins"""
    saved = []
    try:
        for m in mods:
            for name in ('n', 'np'):
                if hasattr(m, name):
                    saved.append((m, name, getattr(m, name), True))
                    setattr(m, name, SYMNP)
            if hasattr(m, 'degrees'):
                saved.append((m, 'degrees', m.degrees, True))
                m.degrees = ang.degrees
            saved.append((m, 'float', getattr(m, 'float', None), hasattr(m, 'float')))
            m.float = _float
            for k, v in (extra or {}).items():
                saved.append((m, k, getattr(m, k, None), hasattr(m, k)))
                setattr(m, k, v)
        yield
    finally:
        for m, name, val, had in reversed(saved):
            if had:
                setattr(m, name, val)
            else:
                try:
                    delattr(m, name)
                except AttributeError:
                    pass


def _float(x):
    if is_sym(x):
        return x
    return float(x)
