"""Exact expression layer: elements num/den of QQ(gens) modulo quadratic relations g^2 = r.

Sparse polynomial rings of sympy (exact gcd cancellation).  The real xfab code runs on numpy
object arrays whose elements are `Q` objects.  Everything here is *encoding* work; verdicts come
from the SMT solver (see smt.py).
"""
import math
import signal
from fractions import Fraction

import numpy as np
from sympy.polys.rings import ring
from sympy.polys.domains import QQ


class EngineError(Exception):
    """harness / engine error (never a verdict)"""


class UnsupportedInShim(EngineError):
    pass


class Field:
    """Polynomial ring QQ[names + aux] with relations  gen_i**2 -> rep_i  and sign facts."""

    def __init__(self, names, naux=10):
        self.names = list(names) + ['u%d' % i for i in range(naux)]
        self.nbase = len(names)
        self.R, *gens = ring(self.names, QQ)
        self.gens = gens
        self.g = dict(zip(self.names, gens))
        self.idx = {n: i for i, n in enumerate(self.names)}
        self.rel = {}          # gen index -> replacement polynomial for gen**2
        self.sign = {}         # name -> '>' | '>=' | '<' | '<='   (sign facts of generators)
        self.naux_used = 0
        self.auxdef = {}       # aux name -> radicand polynomial
        self.angles = {}       # (cname, sname) pairs, for float evaluation
        self.extra = []        # extra z3 assumptions (built lazily by smt layer)

    # -- declarations
    def relation(self, name, rep):
        self.rel[self.idx[name]] = self.R(rep)

    def angle(self, cname, sname):
        self.relation(sname, 1 - self.g[cname] ** 2)
        self.angles[sname] = cname

    def positive(self, *names, strict=True):
        for n in names:
            self.sign[n] = '>' if strict else '>='

    def var(self, name):
        return Q(self.g[name], self.R.one, norm=False)

    # -- normal form
    def red(self, p):
        R = self.R
        if not self.rel:
            return p
        changed = True
        while changed:
            changed = False
            for i, rep in self.rel.items():
                if p == 0:
                    return p
                if max((m[i] for m in p.keys()), default=0) < 2:
                    continue
                acc = {}
                for m, c in p.items():
                    e = m[i]
                    k = e // 2
                    if k:
                        mm = list(m)
                        mm[i] = e % 2
                        m = tuple(mm)
                    d = acc.get(k)
                    if d is None:
                        d = acc[k] = {}
                    d[m] = d.get(m, 0) + c
                q = R.zero
                for k, d in acc.items():
                    poly = R.from_dict(d)
                    q = q + (poly * rep ** k if k else poly)
                p = q
                changed = True
        return p

    def aux(self, radicand):
        for n, r in self.auxdef.items():
            if r == radicand:
                return self.g[n]
        if self.naux_used >= len(self.names) - self.nbase:
            raise EngineError('out of auxiliary generators')
        n = 'u%d' % self.naux_used
        self.naux_used += 1
        self.auxdef[n] = radicand
        self.relation(n, radicand)
        self.sign[n] = '>='
        return self.g[n]


_CUR = [None]


def setfield(f):
    _CUR[0] = f
    return f


def F():
    return _CUR[0]


def _frac(c):
    return Fraction(int(c.numerator), int(c.denominator))


def lift(o):
    if isinstance(o, Q):
        return o
    f = _CUR[0]
    if isinstance(o, (bool, np.bool_)):
        o = int(o)
    if isinstance(o, (int, np.integer)):
        return Q(f.R(int(o)), f.R.one, norm=False)
    if isinstance(o, Fraction):
        return Q(f.R(QQ(o.numerator, o.denominator)), f.R.one, norm=False)
    if isinstance(o, (float, np.floating)):
        fr = Fraction(repr(float(o)))
        return Q(f.R(QQ(fr.numerator, fr.denominator)), f.R.one, norm=False)
    raise TypeError('cannot lift %r' % type(o))


class _Timeout(Exception):
    pass


def _with_alarm(seconds, fn, *a):
    def h(sig, frm):
        raise _Timeout()
    try:
        old = signal.signal(signal.SIGALRM, h)
    except ValueError:      # not main thread
        return fn(*a)
    signal.setitimer(signal.ITIMER_REAL, seconds)
    try:
        return fn(*a)
    finally:
        signal.setitimer(signal.ITIMER_REAL, 0)
        signal.signal(signal.SIGALRM, old)


DOMAIN_HOOK = [None]    # callable(kind, Q): records 'radicand >= 0' / 'denominator != 0' side obligations
SIGN_ORACLE = [None]    # callable(Q) -> +1 / -1 / 0(unknown; may fork)   set by explorer


class Q:
    """num/den in QQ[gens]/relations, cancelled"""
    __slots__ = ('n', 'd')

    def __init__(self, n, d, norm=True):
        if norm:
            f = _CUR[0]
            n = f.red(n)
            d = f.red(d)
            if n == 0:
                d = f.R.one
            elif d.is_ground:
                n = n / d.LC if d != 1 else n
                d = f.R.one
            else:
                if len(n) * len(d) <= CANCEL_SIZE_CAP:
                    n, d = n.cancel(d)
                else:
                    if n == d:
                        n, d = f.R.one, f.R.one
                    else:
                        try:
                            n, d = _with_alarm(CANCEL_TIME_CAP, n.cancel, d)
                        except _Timeout:
                            pass          # keep the uncancelled fraction (still exact)
                # canonical sign/scale of the denominator
                lc = d.LC
                if lc != 1:
                    n = n / lc
                    d = d / lc
        self.n = n
        self.d = d

    # arithmetic ----------------------------------------------------------------------------
    def _co(self, o):
        if isinstance(o, np.ndarray):
            return None
        try:
            return lift(o)
        except TypeError:
            return None

    def __add__(s, o):
        o2 = s._co(o)
        if o2 is None:
            return NotImplemented
        if s.d == o2.d:
            return Q(s.n + o2.n, s.d)
        return Q(s.n * o2.d + o2.n * s.d, s.d * o2.d)
    __radd__ = __add__

    def __sub__(s, o):
        o2 = s._co(o)
        if o2 is None:
            return NotImplemented
        if s.d == o2.d:
            return Q(s.n - o2.n, s.d)
        return Q(s.n * o2.d - o2.n * s.d, s.d * o2.d)

    def __rsub__(s, o):
        o2 = s._co(o)
        if o2 is None:
            return NotImplemented
        return o2 - s

    def __mul__(s, o):
        o2 = s._co(o)
        if o2 is None:
            return NotImplemented
        return Q(s.n * o2.n, s.d * o2.d)
    __rmul__ = __mul__

    def __truediv__(s, o):
        o2 = s._co(o)
        if o2 is None:
            return NotImplemented
        if o2.n == 0:
            raise ZeroDivisionError('symbolic division by the zero polynomial')
        return Q(s.n * o2.d, s.d * o2.n)

    def __rtruediv__(s, o):
        o2 = s._co(o)
        if o2 is None:
            return NotImplemented
        return o2 / s

    def __neg__(s):
        return Q(-s.n, s.d, norm=False)

    def __pos__(s):
        return s

    def __pow__(s, k):
        if isinstance(k, Q):
            k = k.const()
        if isinstance(k, float) and k == int(k):
            k = int(k)
        if isinstance(k, Fraction) and k.denominator == 1:
            k = int(k)
        if isinstance(k, (float, Fraction)) and k * 2 == int(k * 2):
            return (s ** int(k * 2)).sqrt()
        if not isinstance(k, (int, np.integer)):
            raise UnsupportedInShim('power %r' % (k,))
        if k < 0:
            return lift(1) / (s ** (-k))
        r = lift(1)
        for _ in range(int(k)):
            r = r * s
        return r

    def __rpow__(s, base):
        c = s.const()
        if c is not None and c.denominator == 1:
            return base ** int(c)
        raise UnsupportedInShim('symbolic exponent')

    # queries -------------------------------------------------------------------------------
    def iszero(s):
        return s.n == 0

    def isconst(s):
        return s.n.is_ground and s.d.is_ground

    def const(s):
        """Fraction if this is a rational constant else None"""
        if s.n.is_ground and s.d.is_ground:
            a = _frac(s.n.LC) if s.n != 0 else Fraction(0)
            return a / _frac(s.d.LC)
        return None

    def __float__(s):
        c = s.const()
        if c is None:
            raise TypeError('float() of a symbolic value')
        return float(c)

    def __repr__(s):
        t = '(%s)/(%s)' % (s.n, s.d) if s.d != 1 else str(s.n)
        return t if len(t) < 120 else t[:120] + '...[%d/%d terms]' % (len(s.n), len(s.d))

    def __hash__(s):
        return 0

    # square root ---------------------------------------------------------------------------
    def sqrt(s):
        f = _CUR[0]
        if s.n == 0:
            return s
        c = s.const()
        if c is not None:
            if c < 0:
                raise EngineError('sqrt of negative constant %s' % c)
            rn, rd = math.isqrt(c.numerator), math.isqrt(c.denominator)
            if rn * rn == c.numerator and rd * rd == c.denominator:
                return lift(Fraction(rn, rd))
            # constant radicals that the field already contains (e.g. r3 with r3^2 = 3): sqrt(c) = m * r  when c = m^2 * rep
            for i, rep in f.rel.items():
                if rep.is_ground and rep != 0 and f.sign.get(f.names[i]) in ('>', '>='):
                    k = c / _frac(rep.LC)
                    an, ad = math.isqrt(k.numerator), math.isqrt(k.denominator)
                    if k > 0 and an * an == k.numerator and ad * ad == k.denominator:
                        return lift(Fraction(an, ad)) * Q(f.gens[i], f.R.one, norm=False)
        on, inn = _root(s.n)
        od, ind = _root(s.d)
        inside = f.red(inn * ind)          # sqrt(inn/ind) = sqrt(inn*ind)/ind
        outside = Q(on, od * ind)
        # sign of the extracted part must be decided (it is |outside| that multiplies the root)
        outside = _abs_decided(outside)
        if inside.is_ground:
            cc = _frac(inside.LC)
            if cc < 0:
                raise EngineError('sqrt: negative constant radicand')
            rn, rd = math.isqrt(cc.numerator), math.isqrt(cc.denominator)
            if rn * rn == cc.numerator and rd * rd == cc.denominator:
                return outside * lift(Fraction(rn, rd))
        # pull rational content out of the radicand so that equal radicals share one generator
        u = f.aux(inside)
        if DOMAIN_HOOK[0] is not None:
            DOMAIN_HOOK[0]('sqrt', Q(inside, f.R.one, norm=False))
        return outside * Q(u, f.R.one, norm=False)


def _syntactic_sign(q, weak=False):
    """+1/-1 if the sign of q follows from generator sign facts alone, else 0.
    weak=True: non-strict facts count too (result means q >= 0 resp. q <= 0)"""
    f = _CUR[0]
    sg = 1
    for p in (q.n, q.d):
        if p.is_ground:
            if p.LC < 0:
                sg = -sg
            continue
        if len(p) != 1:
            return 0
        (m, c), = p.items()
        if c < 0:
            sg = -sg
        for i, e in enumerate(m):
            if e % 2:
                fact = f.sign.get(f.names[i])
                if fact == '>' or (weak and fact == '>='):
                    pass
                elif fact == '<' or (weak and fact == '<='):
                    sg = -sg
                else:
                    return 0
            elif e:
                # even power: nonzero needed only for strictness; ignore
                pass
    return sg


def _abs_decided(q):
    if q.isconst():
        return q if q.const() >= 0 else -q
    sg = _syntactic_sign(q, weak=True)
    if sg:
        return q if sg > 0 else -q
    orc = SIGN_ORACLE[0]
    if orc is None:
        raise EngineError('sqrt: sign of extracted factor %r undecided and no explorer active' % q)
    sg = orc(q)
    return q if sg >= 0 else -q


CANCEL_SIZE_CAP = 20000
CANCEL_TIME_CAP = 5.0
FACTOR_TERM_CAP = 400
FACTOR_TIME_CAP = 3.0


def _root(p):
    """returns (outside, inside): p = outside^2 * inside (modulo relations)"""
    f = _CUR[0]
    R = f.R
    pre = R.one
    if p.is_ground:
        return pre, p
    # exact division by relation radicands:  (1-c^2) -> s^2
    progress = True
    while progress:
        progress = False
        for i, rep in f.rel.items():
            if p.is_ground or rep.is_ground:
                break
            try:
                q, r = _with_alarm(FACTOR_TIME_CAP, lambda: divmod(p, rep))
            except _Timeout:
                continue            # division too expensive (only seen on mutated code): keep the radicand whole
            if r == 0:
                # rep divides p: p = rep*q = g^2 * q
                p = q
                pre = pre * f.gens[i]
                progress = True
    if p.is_ground:
        return pre, p
    if len(p) > FACTOR_TERM_CAP:
        return pre, p
    try:
        c, facs = _with_alarm(FACTOR_TIME_CAP, p.factor_list)
    except _Timeout:
        return pre, p
    out = pre
    inside = R(c)
    for fac, k in facs:
        g = None
        sgn = 1
        for i, rep in f.rel.items():
            if fac == rep:
                g = f.gens[i]
                break
            if fac == -rep:
                g = f.gens[i]
                sgn = -1
                break
        if g is not None:
            out = out * g ** k
            if sgn == -1 and k % 2:
                inside = -inside
        else:
            out = out * fac ** (k // 2)
            if k % 2:
                inside = inside * fac
    return f.red(out), f.red(inside)
