"""Path explorer by re-execution with decision prefixes + SymBool + comparison operators of Q."""
import time

import numpy as np
import z3

from . import field as fld
from .field import Q, lift, EngineError
from . import smt


class Abort(BaseException):
    """current path infeasible / pruned"""


class BudgetExceeded(BaseException):
    pass


class Ctx:
    """one symbolic run environment: field, z3 view, preconditions, path condition"""

    def __init__(self, f, pre=(), feas_timeout=3.0):
        self.f = fld.setfield(f)
        self.zc = smt.ZCtx(f)
        self.pre = list(pre)
        self.pc = []
        self.trace = []
        self.prefix = []
        self.pos = 0
        self.work = None
        self.feas_timeout = feas_timeout
        self.nfeas = 0
        self.domain = []         # side obligations (kind, formula)
        self.decisions = 0
        self.exploring = False
        self.notes = []
        self.implied = []
        self.prefix_implied = []
        fld.SIGN_ORACLE[0] = self.sign_of
        fld.DOMAIN_HOOK[0] = self.domain_hook
        CUR[0] = self

    # ---------------------------------------------------------------------------------------
    def base(self):
        return self.pre + self.zc.relations()

    def assumptions(self):
        return self.base() + self.pc

    def domain_hook(self, kind, q):
        if kind == 'sqrt':
            self.domain.append(('sqrt-radicand>=0', self.zc.cmp0(q, '>='), list(self.pc)))

    _vcache = {}

    def _slice(self, assertions, extra):
        """cone of influence: assertions sharing no variable (transitively) with `extra` cannot affect its feasibility as long as
        the current path itself is feasible (which the explorer maintains)"""
        def vs(a):
            k = a.get_id()
            e = self._vcache.get(k)
            if e is None or not e[1].eq(a):
                e = (frozenset(smt._collect_consts([a]).keys()), a)
                self._vcache[k] = e
            return e[0]
        cur = set(vs(extra))
        rest = [(a, vs(a)) for a in assertions]
        sel = []
        changed = True
        while changed:
            changed = False
            nxt = []
            for a, v in rest:
                if v & cur:
                    sel.append(a)
                    if not v <= cur:
                        cur |= v
                        changed = True
                else:
                    nxt.append((a, v))
            if len(nxt) != len(rest):
                changed = True
            rest = nxt
        return sel

    def feasible(self, extra):
        self.nfeas += 1
        if smt.INPROC:
            # linear / integer mode: keep the z3 model as a witness of the path so that later decisions can be
            # evaluated under it (halves the number of queries)
            s = z3.Solver()
            s.set('timeout', int(self.feas_timeout * 1000))
            sl = smt.prune_aux(self._slice(self.assumptions(), extra))
            s.add(*(sl + [extra]))
            smt.STATS.queries += 1
            r = s.check()
            smt.STATS.by_result[str(r) if str(r) in smt.STATS.by_result else 'unknown'] += 1
            self._last_model = None
            if r == z3.sat:
                m = s.model()
                self._last_model = {}
                for name, c in smt._collect_consts(sl + [extra]).items():
                    self._last_model[name] = smt._z3_value(m.eval(c, model_completion=True))
            return r != z3.unsat
        st, model, _ = smt.solve(self._slice(self.assumptions(), extra) + [extra], timeout_s=self.feas_timeout,
                                 cvc5_timeout_s=0, want_model=True)
        self._last_model = model if st == 'sat' else None
        return st != 'unsat'

    def _merge(self, m):
        """a model of a sliced query extends to the whole path by keeping the previous witness on all other variables"""
        if m is None or m is self.witness:
            return m
        if not isinstance(m, dict):
            return None
        w = self.witness if isinstance(getattr(self, 'witness', None), dict) else {}
        out = dict(w)
        out.update(m)
        return out

    def _eval_witness(self, cond):
        m = getattr(self, 'witness', None)
        if m is None:
            return None
        if isinstance(m, dict):
            # model returned by a forked solver: exact rational values only (an approximated algebraic value could mis-evaluate)
            from fractions import Fraction
            sub = []
            for name, var in smt._collect_consts([cond]).items():
                val = m.get(name)
                if isinstance(val, bool) and z3.is_bool(var):
                    sub.append((var, z3.BoolVal(val)))
                    continue
                if not isinstance(val, Fraction) or val.denominator.bit_length() > 200:
                    return None
                sub.append((var, z3.RealVal(str(val)) if var.is_real() else z3.IntVal(int(val))))
            try:
                v = z3.simplify(z3.substitute(cond, *sub))
            except Exception:
                return None
            if z3.is_true(v):
                return True
            if z3.is_false(v):
                return False
            return None
        try:
            v = m.eval(cond, model_completion=True)
        except Exception:
            return None
        if z3.is_true(v):
            return True
        if z3.is_false(v):
            return False
        return None

    def entails(self, formula, timeout=None):
        st, _, _ = smt.solve(self.assumptions() + [z3.Not(formula)],
                             timeout_s=timeout or self.feas_timeout, cvc5_timeout_s=timeout or self.feas_timeout,
                             want_model=False)
        return st == 'unsat'

    def decide(self, cond):
        """branch on a z3 formula"""
        if z3.is_true(cond):
            return True
        if z3.is_false(cond):
            return False
        self.decisions += 1
        if self.pos < len(self.prefix):
            d = self.prefix[self.pos]
        else:
            if not self.exploring:
                # straight-line mode: the branch must be determined by the assumptions
                if self.entails(cond):
                    d = True
                elif self.entails(z3.Not(cond)):
                    d = False
                else:
                    raise EngineError('undetermined branch outside explorer: %s' % str(cond)[:200])
            else:
                w = self._eval_witness(cond)
                if w is None:
                    ft = self.feasible(cond)
                    mt = getattr(self, '_last_model', None)
                    ff = self.feasible(z3.Not(cond))
                    mf = getattr(self, '_last_model', None)
                elif w:
                    ft, mt = True, self.witness
                    ff = self.feasible(z3.Not(cond))
                    mf = getattr(self, '_last_model', None)
                else:
                    ff, mf = True, self.witness
                    ft = self.feasible(cond)
                    mt = getattr(self, '_last_model', None)
                implied = False
                mt, mf = self._merge(mt), self._merge(mf)
                if ft and ff:
                    self.work.append((self.trace + [False], mf, list(self.implied) + [False]))
                    d = True
                    self.witness = mt
                elif ft:
                    d = True
                    implied = True          # the other outcome is refuted: the decision follows from the assumptions, no need to record it
                    if mt is not None:
                        self.witness = mt
                elif ff:
                    d = False
                    implied = True
                    if mf is not None:
                        self.witness = mf
                else:
                    raise Abort()
                self.pos += 1
                self.trace.append(d)
                self.implied.append(implied)
                if not implied:
                    self.pc.append(cond if d else z3.Not(cond))
                return d
        self.pos += 1
        self.trace.append(d)
        if self.pos - 1 < len(self.prefix_implied) and self.prefix_implied[self.pos - 1]:
            self.implied.append(True)
        else:
            self.implied.append(False)
            self.pc.append(cond if d else z3.Not(cond))
        return d

    def sign_of(self, q):
        """+1 if q >= 0 on this path, -1 if q <= 0 (decided by the solver, forks if undetermined)"""
        ge = self.zc.cmp0(q, '>=')
        return 1 if self.decide(ge) else -1

    # ---------------------------------------------------------------------------------------
    def explore(self, fn, max_paths=2000, max_seconds=None, catch=(ValueError, AssertionError, ZeroDivisionError, IndexError, KeyError)):
        """run fn() once per feasible path.  returns (leaves, exhaustive).
        leaf = dict(trace, pc, result | exception)"""
        self.exploring = True
        self.work = [([], None, [])]
        leaves = []
        t0 = time.time()
        exhaustive = True
        try:
            while self.work:
                if len(leaves) >= max_paths or (max_seconds and time.time() - t0 > max_seconds):
                    exhaustive = False
                    break
                self.prefix, self.witness, self.prefix_implied = self.work.pop()
                self.pos = 0
                self.trace = []
                self.pc = []
                self.implied = []
                try:
                    res = fn()
                    leaf = {'result': res, 'exception': None}
                except Abort:
                    continue
                except catch as e:
                    leaf = {'result': None, 'exception': e}
                leaf['trace'] = list(self.trace)
                leaf['pc'] = list(self.pc)
                leaves.append(leaf)
        finally:
            self.exploring = False
            self.pc = []
            self.trace = []
            self.prefix = []
            self.pos = 0
        return leaves, exhaustive

    def with_pc(self, pc):
        self.pc = list(pc)


CUR = [None]


def ctx():
    return CUR[0]


class SymBool:
    """boolean backed by a z3 formula; bool() asks the explorer"""
    __slots__ = ('c', 'cb')

    def __init__(self, c, cb=None):
        self.c = c
        self.cb = cb          # optional callback(decision) -- used by Angle to refine its window

    def __bool__(self):
        d = CUR[0].decide(self.c)
        if self.cb is not None:
            self.cb(d)
        return d

    def __and__(self, o):
        return SymBool(z3.And(self.c, _bf(o)))
    __rand__ = __and__

    def __or__(self, o):
        return SymBool(z3.Or(self.c, _bf(o)))
    __ror__ = __or__

    def __invert__(self):
        cb = self.cb
        return SymBool(z3.Not(self.c), None if cb is None else (lambda d: cb(not d)))

    def __repr__(self):
        return 'SymBool(%s)' % str(self.c)[:80]


def _bf(o):
    if isinstance(o, SymBool):
        return o.c
    if isinstance(o, (bool, np.bool_)):
        return z3.BoolVal(bool(o))
    raise TypeError(o)


def _cmp(op):
    def f(s, o):
        if isinstance(o, np.ndarray):
            return NotImplemented
        try:
            d = s - lift(o)
        except TypeError:
            return NotImplemented
        c = d.const()
        if c is not None:
            return {'<': c < 0, '<=': c <= 0, '>': c > 0, '>=': c >= 0, '==': c == 0, '!=': c != 0}[op]
        sg = fld._syntactic_sign(d)
        if sg:
            return {'<': sg < 0, '<=': sg < 0, '>': sg > 0, '>=': sg > 0, '==': False, '!=': True}[op]
        return SymBool(CUR[0].zc.cmp0(d, op))
    return f


Q.__lt__ = _cmp('<')
Q.__le__ = _cmp('<=')
Q.__gt__ = _cmp('>')
Q.__ge__ = _cmp('>=')
Q.__eq__ = _cmp('==')
Q.__ne__ = _cmp('!=')
Q.__hash__ = lambda s: 0


def _qabs(s):
    c = s.const()
    if c is not None:
        return s if c >= 0 else -s
    sg = fld._syntactic_sign(s)
    if sg:
        return s if sg > 0 else -s
    return s if bool(s >= 0) else -s


Q.__abs__ = _qabs
