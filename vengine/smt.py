"""SMT layer: lowering of field elements to z3 terms, solver portfolio (z3 5.x + cvc5 wheel), models."""
import re
import time
from fractions import Fraction

import z3

from .field import Q, lift, F, EngineError, _frac

try:
    import cvc5
except Exception:       # pragma: no cover
    cvc5 = None


class Stats:
    def __init__(self):
        self.queries = 0
        self.by_result = {'sat': 0, 'unsat': 0, 'unknown': 0}
        self.solver_time = {'z3': 0.0, 'cvc5': 0.0}
        self.by_solver = {'z3': 0, 'cvc5': 0}

    def merge(self, o):
        if isinstance(o, Stats):
            o = o.asdict()
        self.queries += o['queries']
        for k in self.by_result:
            self.by_result[k] += o['by_result'][k]
        for k in self.solver_time:
            self.solver_time[k] += o['solver_time_s'][k]
            self.by_solver[k] += o['decided_by'][k]

    def asdict(self):
        return {'queries': self.queries, 'by_result': dict(self.by_result),
                'solver_time_s': {k: round(v, 3) for k, v in self.solver_time.items()},
                'decided_by': dict(self.by_solver)}


STATS = Stats()


def RV(x):
    """rational constant as z3 real"""
    if isinstance(x, Fraction):
        return z3.RealVal(str(x))
    if isinstance(x, int):
        return z3.RealVal(x)
    if isinstance(x, float):
        return z3.RealVal(str(Fraction(repr(x))))
    if isinstance(x, str):
        return z3.RealVal(x)
    raise TypeError(x)


AUX_DEFS = {}      # z3 ast id of an aux-defining assertion -> aux variable name
REL_DEFS = {}      # z3 ast id of a relation-defining assertion -> (variable name, formula, projection or None)


def _aux_name(a):
    e = AUX_DEFS.get(a.get_id())
    # the registry keeps a reference to the formula, so its ast id cannot be recycled; eq() guards anyway
    if e is not None and e[1].eq(a):
        return e[0]
    return None


def _rel_entry(a):
    e = REL_DEFS.get(a.get_id())
    if e is not None and e[1].eq(a):
        return e
    return None


def project_relations(assertions):
    """relation variables that occur only in their own defining assertions are eliminated by exact projection"""
    ents = [(a, _rel_entry(a)) for a in assertions]
    if not any(e for _, e in ents):
        return assertions
    used = {}
    for a, e in ents:
        if e is None:
            for n in _collect_consts([a]).keys():
                used[n] = True
    # a relation variable may occur in the radicand of another relation (e.g. g2^2 = 1 - ct^2 - ...): iterate to a fixed point
    changed = True
    keepdefs = set()
    while changed:
        changed = False
        for a, e in ents:
            if e is not None and e[0] in used and a.get_id() not in keepdefs:
                keepdefs.add(a.get_id())
                for n in _collect_consts([a]).keys():
                    if n not in used:
                        used[n] = True
                        changed = True
                changed = True
    out = []
    for a, e in ents:
        if e is None or a.get_id() in keepdefs:
            out.append(a)
        elif e[2] is not None:
            out.append(e[2])
    return out


def prune_aux(assertions):
    """drop definitions of auxiliary roots that the rest of the query does not mention (closure over radicands)"""
    assertions = project_relations(assertions)
    aux = [(a, _aux_name(a)) for a in assertions]
    if not any(n for _, n in aux):
        return assertions
    used = set()
    for a, n in aux:
        if n is None:
            used |= set(_collect_consts([a]).keys())
    changed = True
    keep = set()
    while changed:
        changed = False
        for a, n in aux:
            if n is not None and n in used and a.get_id() not in keep:
                keep.add(a.get_id())
                new = set(_collect_consts([a]).keys()) - used
                if new:
                    used |= new
                changed = True
    return [a for a, n in aux if n is None or a.get_id() in keep]


class ZCtx:
    """z3 view of a Field"""

    def __init__(self, field):
        self.f = field
        self.vars = {}
        self._pcache = {}

    def var(self, name):
        v = self.vars.get(name)
        if v is None:
            v = self.vars[name] = z3.Real(name)
        return v

    def pz(self, p):
        key = p
        try:
            r = self._pcache.get(key)
        except TypeError:
            r = None
        if r is not None:
            return r
        f = self.f
        terms = []
        for m, c in p.items():
            fac = []
            fr = _frac(c)
            for i, e in enumerate(m):
                if e:
                    v = self.var(f.names[i])
                    fac.extend([v] * e)
            if not fac:
                terms.append(RV(fr))
            else:
                t = fac[0]
                for x in fac[1:]:
                    t = t * x
                terms.append(t if fr == 1 else RV(fr) * t)
        r = z3.Sum(terms) if len(terms) > 1 else (terms[0] if terms else z3.RealVal(0))
        self._pcache[key] = r
        return r

    def qz(self, q):
        q = lift(q)
        if q.d == 1:
            return self.pz(q.n)
        return self.pz(q.n) / self.pz(q.d)

    # n/d op 0 ------------------------------------------------------------------------------
    def cmp0(self, q, op):
        """formula for (q op 0); inequalities use n*d (valid when d != 0)"""
        q = lift(q)
        c = q.const()
        if c is not None:
            return z3.BoolVal({'<': c < 0, '<=': c <= 0, '>': c > 0, '>=': c >= 0, '==': c == 0, '!=': c != 0}[op])
        n = self.pz(q.n)
        if op in ('==', '!='):
            return (n == 0) if op == '==' else (n != 0)
        if q.d.is_ground:
            t = n if q.d.LC > 0 else -n
        else:
            sd = _poly_sign(self.f, q.d)
            if sd > 0:
                t = n
            elif sd < 0:
                t = -n
            else:
                t = n * self.pz(q.d)
        return {'<': t < 0, '<=': t <= 0, '>': t > 0, '>=': t >= 0}[op]

    def cmp(self, a, op, b):
        return self.cmp0(lift(a) - lift(b), op)

    def relations(self):
        """defining relations and sign facts.  Assertions that define an auxiliary square root (u_k^2 = radicand, u_k >= 0) are
        registered in AUX_DEFS: smt.solve drops them from queries in which u_k does not occur, because a root introduced on
        one path must not constrain another path (u^2 = d silently forces d >= 0)."""
        f = self.f
        cs = []
        for i, rep in f.rel.items():
            n = f.names[i]
            g = self.var(n)
            c = g * g == self.pz(rep)
            if n in f.auxdef:
                AUX_DEFS[c.get_id()] = (n, c)
            else:
                # declared relation variable g (sine of an angle, quaternion scalar part, ...): if g occurs nowhere else in a query,
                # "exists g: g^2 = rep (and sign fact)" is replaced by its exact projection rep >= 0 (rep > 0 for a strict sign fact)
                sg0 = f.sign.get(n)
                rz = self.pz(rep)
                REL_DEFS[c.get_id()] = (n, c, (rz > 0) if sg0 in ('>', '<') else (rz >= 0))
            cs.append(c)
        for n, sg in f.sign.items():
            v = self.var(n)
            c = {'>': v > 0, '>=': v >= 0, '<': v < 0, '<=': v <= 0}[sg]
            if n in f.auxdef:
                AUX_DEFS[c.get_id()] = (n, c)
            elif f.idx[n] in f.rel:
                REL_DEFS[c.get_id()] = (n, c, None)        # sign fact of a relation variable: dropped together with its definition
            cs.append(c)
        return cs


def _poly_sign(f, p):
    """sign of a monomial denominator from generator sign facts, 0 if unknown"""
    if len(p) != 1:
        return 0
    (m, c), = p.items()
    sg = 1 if c > 0 else -1
    for i, e in enumerate(m):
        if e % 2:
            fact = f.sign.get(f.names[i])
            if fact == '>':
                continue
            if fact == '<':
                sg = -sg
                continue
            return 0
    return sg


# ------------------------------------------------------------------------------------------------
# solving

def _z3_value(v):
    if z3.is_rational_value(v):
        return Fraction(v.numerator_as_long(), v.denominator_as_long())
    if z3.is_int_value(v):
        return Fraction(v.as_long())
    if z3.is_algebraic_value(v):
        a = v.approx(40)
        return Fraction(a.numerator_as_long(), a.denominator_as_long())
    if z3.is_true(v):
        return True
    if z3.is_false(v):
        return False
    if z3.is_string_value(v):
        return v.as_string()
    return v


def _collect_consts(assertions):
    seen = {}
    stack = list(assertions)
    visited = set()
    while stack:
        e = stack.pop()
        i = e.get_id()
        if i in visited:
            continue
        visited.add(i)
        if z3.is_const(e) and e.decl().kind() == z3.Z3_OP_UNINTERPRETED:
            seen[e.decl().name()] = e
        else:
            stack.extend(e.children())
    return seen


def _cvc5_value(term, slv):
    s = str(slv.getValue(term))
    return _parse_cvc5_value(s)


_ALG = re.compile(r'\(_ real_algebraic_number <(.*), \((.*), (.*)\)>\)')


def _parse_rat(s):
    s = s.strip()
    m = re.fullmatch(r'\(-\s+(.*)\)', s)
    if m:
        return -_parse_rat(m.group(1))
    m = re.fullmatch(r'\(/\s+(.*)\s+(\S+)\)', s)
    if m:
        return _parse_rat(m.group(1)) / _parse_rat(m.group(2))
    if s.endswith('.0'):
        s = s[:-2]
    return Fraction(s)


def _parse_cvc5_value(s):
    if s == 'true':
        return True
    if s == 'false':
        return False
    m = _ALG.fullmatch(s)
    if m:
        import sympy
        poly, lo, hi = m.groups()
        x = sympy.Symbol('x')
        pe = sympy.sympify(poly.replace('^', '**'), locals={'x': x})
        lo = Fraction(lo.replace(' ', '')) if '/' in lo or lo.lstrip('-').isdigit() else _parse_rat(lo)
        hi = Fraction(hi.replace(' ', '')) if '/' in hi or hi.lstrip('-').isdigit() else _parse_rat(hi)
        for r in sympy.Poly(pe, x).nroots(n=40):
            if abs(sympy.im(r)) < 1e-30 and float(lo) <= float(sympy.re(r)) <= float(hi):
                return Fraction(str(sympy.re(r)))
        return (lo + hi) / 2
    if s.startswith('"'):
        return s[1:-1]
    return _parse_rat(s)


def run_cvc5(assertions, timeout_s, logic=None, want_model=True):
    if cvc5 is None:
        return 'unknown', None
    s = z3.Solver()
    s.add(*assertions)
    txt = s.to_smt2().replace('(check-sat)', '')
    slv = cvc5.Solver()
    slv.setOption('produce-models', 'true')
    slv.setOption('tlimit-per', str(int(timeout_s * 1000)))
    if logic:
        slv.setLogic(logic)
    else:
        slv.setLogic('ALL')
    try:
        p = cvc5.InputParser(slv)
        p.setStringInput(cvc5.InputLanguage.SMT_LIB_2_6, txt, 'q')
        sm = p.getSymbolManager()
        while True:
            cmd = p.nextCommand()
            if cmd.isNull():
                break
            cmd.invoke(slv, sm)
        r = slv.checkSat()
    except Exception as e:        # parser/solver error: inconclusive
        return 'unknown', None
    if r.isUnsat():
        return 'unsat', None
    if r.isSat():
        model = {}
        if want_model:
            try:
                for t in sm.getDeclaredTerms():
                    model[str(t)] = _cvc5_value(t, slv)
            except Exception:
                return 'unknown', None
        return 'sat', model
    return 'unknown', None


def _z3_solve(assertions, timeout_s, want_model, tactic=None):
    s = z3.Solver() if tactic is None else z3.Tactic(tactic).solver()
    s.set('timeout', max(1, int(timeout_s * 1000)))
    s.add(*assertions)
    r = s.check()
    if r == z3.sat:
        model = None
        if want_model:
            m = s.model()
            model = {}
            for name, c in _collect_consts(assertions).items():
                model[name] = _z3_value(m.eval(c, model_completion=True))
        return 'sat', model
    if r == z3.unsat:
        return 'unsat', None
    return 'unknown', None


def _fork_run(fn):
    """run fn() in a forked child; returns (pid, read_fd)"""
    import os
    import pickle
    r, w = os.pipe()
    pid = os.fork()
    if pid == 0:
        try:
            try:      # die with the parent (no orphan solver processes holding pipes open)
                import ctypes
                ctypes.CDLL('libc.so.6').prctl(1, 9)
            except Exception:
                pass
            os.close(r)
            try:
                res = fn()
            except BaseException as e:      # noqa
                res = ('unknown', None)
            try:
                data = pickle.dumps(res)
            except Exception:
                data = pickle.dumps((res[0], None))
            with os.fdopen(w, 'wb') as fh:
                fh.write(data)
        finally:
            os._exit(0)
    os.close(w)
    return pid, r


def _portfolio(assertions, timeout_s, cvc5_timeout_s, want_model, order):
    """z3 and cvc5 concurrently in forked children with hard wall-clock limits"""
    import os
    import pickle
    import select
    import signal
    jobs = {}
    t0 = time.time()
    for which in order:
        if which == 'z3':
            pid, fd = _fork_run(lambda: _z3_solve(assertions, timeout_s, want_model))
            jobs[fd] = (pid, 'z3', timeout_s + 2)
        elif which == 'cvc5' and cvc5 is not None and (cvc5_timeout_s is None or cvc5_timeout_s > 0):
            ct = cvc5_timeout_s if cvc5_timeout_s is not None else timeout_s
            pid, fd = _fork_run(lambda: run_cvc5(assertions, ct, want_model=want_model))
            jobs[fd] = (pid, 'cvc5', ct + 2)
    result = ('unknown', None, None)
    while jobs:
        now = time.time() - t0
        # kill over-time jobs
        for fd, (pid, which, lim) in list(jobs.items()):
            if now > lim:
                _kill(pid)
                os.close(fd)
                del jobs[fd]
        if not jobs:
            break
        rl, _, _ = select.select(list(jobs), [], [], 0.25)
        for fd in rl:
            pid, which, lim = jobs.pop(fd)
            try:
                with os.fdopen(fd, 'rb') as fh:
                    data = fh.read()
                st, model = pickle.loads(data) if data else ('unknown', None)
            except Exception:
                st, model = 'unknown', None
            try:
                os.waitpid(pid, 0)
            except ChildProcessError:
                pass
            STATS.solver_time[which] += time.time() - t0
            if st != 'unknown' and result[0] == 'unknown':
                result = (st, model, which)
        if result[0] != 'unknown':
            for fd, (pid, which, lim) in jobs.items():
                _kill(pid)
                os.close(fd)
                STATS.solver_time[which] += time.time() - t0
            jobs = {}
    return result


def _kill(pid):
    import os
    import signal
    try:
        os.kill(pid, signal.SIGKILL)
    except ProcessLookupError:
        pass
    try:
        os.waitpid(pid, 0)
    except ChildProcessError:
        pass


INPROC = False     # property modules with linear/integer queries set this to True (no risk of non-interruptible nlsat calls)


def solve(assertions, timeout_s=10.0, cvc5_timeout_s=None, want_model=True, order=('z3', 'cvc5'), tactic=None,
          quick_s=1.0, inproc=None):
    """decide satisfiability of the conjunction.  returns (status, model-dict-or-None, info).
    Nonlinear queries run in forked children under hard wall-clock limits (z3's own timeout is not always honoured
    inside nlsat): z3 and, if allowed, cvc5 concurrently; first definitive answer wins.
    inproc=True: z3 in this process (linear / integer logics)."""
    assertions = prune_aux([a for a in assertions])
    STATS.queries += 1
    info = {}
    inproc = INPROC if inproc is None else inproc
    use_cvc5 = 'cvc5' in order and cvc5 is not None and (cvc5_timeout_s is None or cvc5_timeout_s > 0)
    t0 = time.time()
    which = 'z3'
    if inproc:
        status, model = _z3_solve(assertions, timeout_s, want_model, tactic)
        STATS.solver_time['z3'] += time.time() - t0
        if status == 'unknown' and use_cvc5:
            status, model, which = _portfolio(assertions, timeout_s, cvc5_timeout_s, want_model, ('cvc5',))
    else:
        status, model, which = _portfolio(assertions, timeout_s, cvc5_timeout_s if use_cvc5 else 0, want_model,
                                          order if use_cvc5 else ('z3',))
    if status != 'unknown':
        STATS.by_solver[which or 'z3'] += 1
        info['solver'] = which
    STATS.by_result[status] += 1
    return status, model, info


def pi_enclosure(zc, name='pi'):
    v = zc.var(name)
    return [v > z3.RealVal('3.14159265358979'), v < z3.RealVal('3.14159265358980')]
