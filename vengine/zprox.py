"""Raw z3-term proxies (no normaliser): integers and reals for linear / integer code paths."""
import numpy as np
import z3

from . import explore


def _z(o):
    if isinstance(o, ZNum):
        return o.t
    if isinstance(o, (bool, np.bool_)):
        return z3.IntVal(int(o))
    if isinstance(o, (int, np.integer)):
        return z3.IntVal(int(o))
    if isinstance(o, (float, np.floating)):
        from fractions import Fraction
        return z3.RealVal(str(Fraction(repr(float(o)))))
    raise TypeError(type(o))


class ZNum:
    """wraps a z3 arithmetic term; comparisons give SymBool (bool() forks in the explorer)"""
    __slots__ = ('t',)

    def __init__(self, t):
        self.t = t

    def _bin(self, o, fn):
        if isinstance(o, np.ndarray):
            return NotImplemented
        try:
            return ZNum(fn(self.t, _z(o)))
        except TypeError:
            return NotImplemented

    def __add__(self, o):
        return self._bin(o, lambda a, b: a + b)
    __radd__ = __add__

    def __sub__(self, o):
        return self._bin(o, lambda a, b: a - b)

    def __rsub__(self, o):
        return self._bin(o, lambda a, b: b - a)

    def __mul__(self, o):
        return self._bin(o, lambda a, b: a * b)
    __rmul__ = __mul__

    def __neg__(self):
        return ZNum(-self.t)

    def __pos__(self):
        return self

    def __abs__(self):
        return ZNum(z3.If(self.t >= 0, self.t, -self.t))

    def __mod__(self, o):
        return self._bin(o, lambda a, b: a % b)

    def __floordiv__(self, o):
        return self._bin(o, lambda a, b: a / b)

    def __truediv__(self, o):
        return self._bin(o, lambda a, b: z3.ToReal(a) / z3.ToReal(b) if a.is_int() else a / (z3.ToReal(b) if b.is_int() else b))

    def _cmp(self, o, fn):
        if isinstance(o, np.ndarray):
            return NotImplemented
        try:
            f = z3.simplify(fn(self.t, _z(o)))
        except TypeError:
            return NotImplemented
        if z3.is_true(f):
            return True
        if z3.is_false(f):
            return False
        return explore.SymBool(f)

    def __lt__(self, o):
        return self._cmp(o, lambda a, b: a < b)

    def __le__(self, o):
        return self._cmp(o, lambda a, b: a <= b)

    def __gt__(self, o):
        return self._cmp(o, lambda a, b: a > b)

    def __ge__(self, o):
        return self._cmp(o, lambda a, b: a >= b)

    def __eq__(self, o):
        return self._cmp(o, lambda a, b: a == b)

    def __ne__(self, o):
        return self._cmp(o, lambda a, b: a != b)

    def __hash__(self):
        return 2

    def __repr__(self):
        return 'ZNum(%s)' % str(self.t)[:60]


def Int(name):
    return ZNum(z3.Int(name))


def Real(name):
    return ZNum(z3.Real(name))
