"""Expression-tree proxy with transcendental `exp` (for form factors): SMT-LIB printing (cvc5 QF_NRAT),
exact/interval-free numeric evaluation, symbolic derivative."""
import math
from fractions import Fraction

import numpy as np


def _lit(x):
    if isinstance(x, T):
        return x
    if isinstance(x, (bool, np.bool_)):
        x = int(x)
    if isinstance(x, (int, np.integer)):
        return T('const', Fraction(int(x)))
    if isinstance(x, Fraction):
        return T('const', x)
    if isinstance(x, (float, np.floating)):
        return T('const', Fraction(repr(float(x))))
    raise TypeError('cannot lift %r into a term' % type(x))


class T:
    __slots__ = ('op', 'a')

    def __init__(self, op, *a):
        self.op = op
        self.a = a

    # arithmetic
    def __add__(s, o):
        try:
            o = _lit(o)
        except TypeError:
            return NotImplemented
        if s.op == 'const' and o.op == 'const':
            return T('const', s.a[0] + o.a[0])
        return T('+', s, o)
    __radd__ = __add__

    def __sub__(s, o):
        try:
            o = _lit(o)
        except TypeError:
            return NotImplemented
        return s + (-o)

    def __rsub__(s, o):
        return _lit(o) + (-s)

    def __neg__(s):
        if s.op == 'const':
            return T('const', -s.a[0])
        return T('neg', s)

    def __mul__(s, o):
        try:
            o = _lit(o)
        except TypeError:
            return NotImplemented
        if s.op == 'const' and o.op == 'const':
            return T('const', s.a[0] * o.a[0])
        return T('*', s, o)
    __rmul__ = __mul__

    def __truediv__(s, o):
        o = _lit(o)
        if o.op == 'const':
            return s * T('const', 1 / o.a[0])
        return T('/', s, o)

    def __pow__(s, k):
        r = _lit(1)
        for _ in range(int(k)):
            r = r * s
        return r

    def exp(s):
        if s.op == 'const' and s.a[0] == 0:
            return _lit(1)
        return T('exp', s)

    # comparisons: exp-free terms become z3 reals; the decision is taken by the path explorer
    def z3(s):
        import z3
        if s.op == 'const':
            return z3.RealVal(str(s.a[0]))
        if s.op == 'var':
            return z3.Real(s.a[0])
        if s.op == 'neg':
            return -s.a[0].z3()
        if s.op == 'exp':
            raise TypeError('comparison of a term containing exp')
        x, y = s.a[0].z3(), s.a[1].z3()
        return x + y if s.op == '+' else (x * y if s.op == '*' else x / y)

    def _cmp(s, o, op):
        import z3
        from . import explore
        a, b = s.z3(), _lit(o).z3()
        f = {'<': a < b, '<=': a <= b, '>': a > b, '>=': a >= b, '==': a == b, '!=': a != b}[op]
        return explore.SymBool(f)

    def __lt__(s, o):
        return s._cmp(o, '<')

    def __le__(s, o):
        return s._cmp(o, '<=')

    def __gt__(s, o):
        return s._cmp(o, '>')

    def __ge__(s, o):
        return s._cmp(o, '>=')

    def __hash__(s):
        return id(s)

    # printing
    def smt(s):
        if s.op == 'const':
            c = s.a[0]
            if c < 0:
                return '(- %s)' % T('const', -c).smt()
            if c.denominator == 1:
                return '%d.0' % c.numerator
            return '(/ %d.0 %d.0)' % (c.numerator, c.denominator)
        if s.op == 'var':
            return s.a[0]
        if s.op == 'neg':
            return '(- %s)' % s.a[0].smt()
        if s.op == 'exp':
            return '(exp %s)' % s.a[0].smt()
        return '(%s %s %s)' % (s.op, s.a[0].smt(), s.a[1].smt())

    def ev(s, env):
        """numeric evaluation with mpmath (50 digits)"""
        import mpmath
        if s.op == 'const':
            return mpmath.mpf(s.a[0].numerator) / s.a[0].denominator
        if s.op == 'var':
            return mpmath.mpf(env[s.a[0]])
        if s.op == 'neg':
            return -s.a[0].ev(env)
        if s.op == 'exp':
            return mpmath.exp(s.a[0].ev(env))
        x, y = s.a[0].ev(env), s.a[1].ev(env)
        if s.op == '+':
            return x + y
        if s.op == '*':
            return x * y
        return x / y

    def d(s, v):
        """derivative with respect to variable name v"""
        if s.op == 'const':
            return _lit(0)
        if s.op == 'var':
            return _lit(1 if s.a[0] == v else 0)
        if s.op == 'neg':
            return -s.a[0].d(v)
        if s.op == 'exp':
            return s * s.a[0].d(v)
        x, y = s.a
        if s.op == '+':
            return x.d(v) + y.d(v)
        if s.op == '*':
            return x.d(v) * y + x * y.d(v)
        if s.op == '/':
            return (x.d(v) * y - x * y.d(v)) / (y * y)
        raise ValueError(s.op)

    def vars(s, acc=None):
        acc = set() if acc is None else acc
        if s.op == 'var':
            acc.add(s.a[0])
        elif s.op != 'const':
            for x in s.a:
                x.vars(acc)
        return acc

    def __repr__(s):
        t = s.smt()
        return t if len(t) < 200 else t[:200] + '...'


def var(name):
    return T('var', name)


def exp(x):
    if isinstance(x, T):
        return x.exp()
    return math.exp(x)


def run_cvc5_text(decls, assertions, timeout_s=20.0, logic='QF_NRAT', get=()):
    """assertions: SMT-LIB strings.  returns (status, values-dict).  Forked child with hard wall limit."""
    from . import smt as _smt
    import cvc5

    def job():
        slv = cvc5.Solver()
        slv.setOption('produce-models', 'true')
        slv.setOption('tlimit-per', str(int(timeout_s * 1000)))
        slv.setLogic(logic)
        txt = ''.join('(declare-fun %s () Real)\n' % d for d in decls) + ''.join('(assert %s)\n' % a for a in assertions)
        p = cvc5.InputParser(slv)
        p.setStringInput(cvc5.InputLanguage.SMT_LIB_2_6, txt, 'q')
        sm = p.getSymbolManager()
        while True:
            cmd = p.nextCommand()
            if cmd.isNull():
                break
            cmd.invoke(slv, sm)
        r = slv.checkSat()
        if r.isUnsat():
            return 'unsat', None
        if r.isSat():
            vals = {}
            for t in sm.getDeclaredTerms():
                try:
                    vals[str(t)] = _smt._cvc5_value(t, slv)
                except Exception:
                    vals[str(t)] = None
            return 'sat', vals
        return 'unknown', None
    import os
    import pickle
    import select
    import time
    _smt.STATS.queries += 1
    t0 = time.time()
    pid, fd = _smt._fork_run(job)
    rl, _, _ = select.select([fd], [], [], timeout_s + 3)
    if not rl:
        _smt._kill(pid)
        os.close(fd)
        st, vals = 'unknown', None
    else:
        with os.fdopen(fd, 'rb') as fh:
            data = fh.read()
        try:
            st, vals = pickle.loads(data) if data else ('unknown', None)
        except Exception:
            st, vals = 'unknown', None
        try:
            os.waitpid(pid, 0)
        except ChildProcessError:
            pass
    _smt.STATS.solver_time['cvc5'] += time.time() - t0
    _smt.STATS.by_result[st] += 1
    if st != 'unknown':
        _smt.STATS.by_solver['cvc5'] += 1
    return st, vals
