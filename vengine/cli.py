import argparse
import importlib
import json
import os
import sys

from . import core


def main():
    import logging
    logging.disable(logging.CRITICAL)      # xfab's loggers would interleave with the verdict lines
    ap = argparse.ArgumentParser()
    ap.add_argument('pid')
    ap.add_argument('--tier', default=os.environ.get('VERIF_TIER', 'quick'), choices=['quick', 'thorough'])
    ap.add_argument('--replay')
    ap.add_argument('--procs', type=int, default=None)
    a = ap.parse_args()
    seed = int(os.environ.get('VERIF_SEED', '0') or 0)
    pid = a.pid.upper()
    if a.replay:
        mod = importlib.import_module('props.%s' % pid.lower())
        rec = json.load(open(a.replay))
        ok, text = mod.replay(rec)
        print(('REPRODUCED ' if ok else 'NOT-REPRODUCED ') + text)
        sys.exit(1 if ok else 0)
    sys.exit(core.run_check(pid, a.tier, seed, a.procs))


if __name__ == '__main__':
    main()
