"""Angle proxy: a real number known through (cos, sin), a window and a unit scale."""
from fractions import Fraction

import numpy as np
import z3
import mpmath

from .field import Q, lift, F, EngineError, UnsupportedInShim
from . import explore

mpmath.mp.dps = 60
PI_LO = Fraction('3.14159265358979')
PI_HI = Fraction('3.14159265358980')


def _rat(x, digits=45):
    return Fraction(mpmath.nstr(x, digits, strip_zeros=False))


def cos_const(t):
    return _rat(mpmath.cos(mpmath.mpf(t.numerator) / t.denominator)) if isinstance(t, Fraction) else _rat(mpmath.cos(t))


def sin_const(t):
    return _rat(mpmath.sin(mpmath.mpf(t.numerator) / t.denominator)) if isinstance(t, Fraction) else _rat(mpmath.sin(t))


def pi_power(q):
    """if Q q == r * pi**k  (r rational, k integer) return (r, k) else None"""
    f = F()
    q = lift(q)
    if 'pi' not in f.idx:
        c = q.const()
        return (c, 0) if c is not None else None
    ip = f.idx['pi']

    def mono(p):
        if len(p) != 1:
            return None
        (m, c), = p.items()
        for i, e in enumerate(m):
            if e and i != ip:
                return None
        return Fraction(int(c.numerator), int(c.denominator)), m[ip]
    if q.n == 0:
        return Fraction(0), 0
    a = mono(q.n)
    b = mono(q.d)
    if a is None or b is None:
        return None
    return a[0] / b[0], a[1] - b[1]


class Angle:
    """theta (radians) in [lo*pi, hi*pi]; represented value = theta * r * pi**p"""

    def __init__(self, c, s, lo=None, hi=None, lo_open=False, hi_open=False, r=Fraction(1), p=0, half=None):
        self.c = lift(c)
        self._s = s if callable(s) else lift(s)      # a callable delays the square root until the sine is really needed
        self.lo = None if lo is None else Fraction(lo)
        self.hi = None if hi is None else Fraction(hi)
        self.lo_open = lo_open
        self.hi_open = hi_open
        self.r = Fraction(r)
        self.p = p
        self.half = half

    @property
    def s(self):
        if callable(self._s):
            self._s = lift(self._s())
        return self._s

    # ---- constructors
    @staticmethod
    def double(half_angle):
        h = half_angle
        a = Angle(h.c * h.c - h.s * h.s, 2 * h.s * h.c,
                  None if h.lo is None else 2 * h.lo, None if h.hi is None else 2 * h.hi,
                  h.lo_open, h.hi_open, half=h)
        return a

    def _copy(self, **kw):
        d = dict(c=self.c, s=self._s, lo=self.lo, hi=self.hi, lo_open=self.lo_open, hi_open=self.hi_open,
                 r=self.r, p=self.p, half=self.half)
        d.update(kw)
        return Angle(**d)

    def in_unit(self, unit):
        return self._copy(r=Fraction(180) if unit == 'deg' else Fraction(1), p=-1 if unit == 'deg' else 0)

    def is_rad(self):
        return self.r == 1 and self.p == 0

    def is_deg(self):
        return self.r == 180 and self.p == -1

    # ---- scaling
    def _scale(self, o, inv=False):
        if isinstance(o, Angle):
            raise UnsupportedInShim('Angle*Angle')
        if isinstance(o, np.ndarray):
            return NotImplemented
        rk = pi_power(o)
        if rk is None:
            raise UnsupportedInShim('Angle scaled by non-constant %r' % (o,))
        r, k = rk
        if r == 0:
            raise UnsupportedInShim('Angle * 0')
        if inv:
            return self._copy(r=self.r / r, p=self.p - k, half=self.half)
        return self._copy(r=self.r * r, p=self.p + k, half=self.half)

    def __mul__(self, o):
        return self._scale(o)
    __rmul__ = __mul__

    def __truediv__(self, o):
        return self._scale(o, inv=True)

    def __neg__(self):
        return Angle(self.c, -self.s, None if self.hi is None else -self.hi, None if self.lo is None else -self.lo,
                     self.hi_open, self.lo_open, self.r, self.p,
                     half=None if self.half is None else -self.half)

    def __pos__(self):
        return self

    # ---- trig
    def _theta_multiple(self):
        """(k) such that the value whose cos/sin is requested equals k*theta; requires p == 0"""
        if self.p != 0:
            raise UnsupportedInShim('cos/sin of an angle in unit r=%s p=%s' % (self.r, self.p))
        return self.r

    def cs(self):
        k = self._theta_multiple()
        if k == 1:
            return self.c, self.s
        if k == -1:
            return self.c, -self.s
        if k.denominator == 1:
            n = abs(int(k))
            c, s = self.c, self.s
            cc, ss = c, s
            for _ in range(n - 1):
                cc, ss = cc * c - ss * s, ss * c + cc * s
            return (cc, ss) if k > 0 else (cc, -ss)
        if k == Fraction(1, 2):
            h = self.half_angle()
            return h.c, h.s
        raise UnsupportedInShim('cos/sin of %s * theta' % k)

    def cos(self):
        return self.cs()[0]

    def sin(self):
        return self.cs()[1]

    def tan(self):
        c, s = self.cs()
        return s / c

    def half_angle(self):
        if self.half is not None:
            return self.half
        # theta in (-pi, pi]  ->  theta/2 in (-pi/2, pi/2]: cos >= 0
        if self.lo is None or self.lo < -1 or self.hi > 1:
            raise UnsupportedInShim('half angle needs window within [-pi,pi]')
        ch = ((1 + self.c) / 2).sqrt()
        sh = self.s / (2 * ch)
        h = Angle(ch, sh, self.lo / 2, self.hi / 2, self.lo_open, self.hi_open)
        self.half = h
        return h

    # ---- addition
    def _const_to_theta(self, o):
        """constant o in this angle's unit -> (q) with o = q*pi radians (q Fraction) or None"""
        rk = pi_power(o)
        if rk is None:
            return None
        r, k = rk
        if r == 0:
            return Fraction(0)
        # value = theta*R*pi^P  => theta = o/(R pi^P) = r/R * pi^(k-P)
        if k - self.p != 1:
            return None
        return r / self.r

    def _shift(self, q):
        """theta + q*pi, q multiple of 1/2"""
        if q == 0:
            return self
        if (q * 2).denominator != 1:
            raise UnsupportedInShim('angle shift by %s*pi' % q)
        k = int(q * 2) % 4
        c, s = self.c, self.s
        c2, s2 = [(c, s), (-s, c), (-c, -s), (s, -c)][k]
        return Angle(c2, s2, None if self.lo is None else self.lo + q, None if self.hi is None else self.hi + q,
                     self.lo_open, self.hi_open, self.r, self.p)

    def __add__(self, o):
        if isinstance(o, np.ndarray):
            return NotImplemented
        if isinstance(o, Angle):
            if (o.r, o.p) != (self.r, self.p):
                raise UnsupportedInShim('adding angles of different units')
            lo = None if (self.lo is None or o.lo is None) else self.lo + o.lo
            hi = None if (self.hi is None or o.hi is None) else self.hi + o.hi
            return Angle(self.c * o.c - self.s * o.s, self.s * o.c + self.c * o.s, lo, hi,
                         self.lo_open or o.lo_open, self.hi_open or o.hi_open, self.r, self.p)
        q = self._const_to_theta(o)
        if q is None:
            raise UnsupportedInShim('Angle + %r' % (o,))
        return self._shift(q)
    __radd__ = __add__

    def __sub__(self, o):
        if isinstance(o, np.ndarray):
            return NotImplemented
        if isinstance(o, Angle):
            return self + (-o)
        q = self._const_to_theta(o)
        if q is None:
            raise UnsupportedInShim('Angle - %r' % (o,))
        return self._shift(-q)

    def __rsub__(self, o):
        return (-self) + o

    # ---- abs / comparisons
    def __abs__(self):
        if self.lo is not None and self.lo >= 0:
            return self
        if self.hi is not None and self.hi <= 0:
            return -self
        if self.lo is None or self.lo < -1 or self.hi > 1:
            raise UnsupportedInShim('abs of angle with wide window')
        zc = explore.ctx().zc
        if explore.ctx().decide(zc.cmp0(self.s, '>=')):
            # theta in [0, hi]  (theta = -pi impossible unless s == 0 and c == -1 and lo == -1 closed)
            if self.lo == -1 and not self.lo_open:
                # s >= 0 includes theta == -pi: treat |theta| = pi, same (c, s)
                pass
            return Angle(self.c, self.s, 0, max(self.hi, Fraction(1) if self.lo == -1 and not self.lo_open else self.hi),
                         False, self.hi_open, self.r, self.p)
        return Angle(self.c, -self.s, 0, -self.lo, False, self.lo_open, self.r, self.p)

    def _threshold(self, o):
        """threshold o (in this angle's unit) -> theta-threshold as (Fraction lower, Fraction upper, q-or-None)"""
        rk = pi_power(o)
        if rk is None:
            raise UnsupportedInShim('comparison of Angle with non-constant')
        r, k = rk
        e = k - self.p
        t = r / self.r
        if t == 0:
            return Fraction(0), Fraction(0), Fraction(0)
        if e == 1:
            a, b = sorted((t * PI_LO, t * PI_HI))
            return a, b, t
        if e == 0:
            return t, t, None
        if e == -1:
            a, b = sorted((t / PI_LO, t / PI_HI))
            return a, b, None
        raise UnsupportedInShim('threshold with pi power %d' % e)

    def _lt(self, o, strict=True):
        """theta < t (strict) or theta <= t"""
        zc = explore.ctx().zc
        tlo, thi, q = self._threshold(o)
        if self.lo is None:
            raise UnsupportedInShim('comparison of windowless angle')
        lo, hi = self.lo, self.hi
        # bounds in radians (enclosures)
        hi_rad_hi = hi * (PI_HI if hi >= 0 else PI_LO)
        lo_rad_lo = lo * (PI_LO if lo >= 0 else PI_HI)
        if q is not None:
            if hi < q or (hi == q and (self.hi_open or not strict)):
                return True
            if lo > q or (lo == q and (strict or self.lo_open)):
                return False
        else:
            if hi_rad_hi < tlo:
                return True
            if lo_rad_lo > thi:
                return False
        if tlo != thi and q is None:
            raise UnsupportedInShim('fuzzy threshold')
        # threshold strictly inside the window: monotone trig function
        tq = q if q is not None else None
        if lo >= 0 and hi <= 1:
            # cos decreasing on [0, pi]
            ct = _cos_of(q, tlo)
            return explore.SymBool(zc.cmp0(self.c - lift(ct), '>' if strict else '>='))
        if lo >= Fraction(-1, 2) and hi <= Fraction(1, 2):
            st = _sin_of(q, tlo)
            return explore.SymBool(zc.cmp0(self.s - lift(st), '<' if strict else '<='))
        if lo >= -1 and hi <= 1 and (q == 0):
            f = zc.cmp0(self.s, '<')
            if lo == -1 and not self.lo_open:
                f = z3.Or(f, z3.And(zc.cmp0(self.s, '=='), zc.cmp0(self.c, '<')))   # theta == -pi
                # (theta == +pi has the same (c,s); callers with closed both ends are not supported)
                if hi == 1 and not self.hi_open:
                    raise UnsupportedInShim('window [-pi,pi] closed at both ends')
            if not strict:
                f = z3.Or(f, z3.And(zc.cmp0(self.s, '=='), zc.cmp0(self.c, '>')))
            return explore.SymBool(f)
        if lo >= 0 and hi <= 2 and q == 1:
            # theta < pi  <=>  s > 0 or theta == 0
            f = zc.cmp0(self.s, '>')
            zero = z3.And(zc.cmp0(self.s, '=='), zc.cmp0(self.c, '>'))
            if lo == 0 and not self.lo_open:
                if hi == 2 and not self.hi_open:
                    raise UnsupportedInShim('window [0,2pi] closed at both ends')
                f = z3.Or(f, zero)
            if not strict:
                f = z3.Or(f, z3.And(zc.cmp0(self.s, '=='), zc.cmp0(self.c, '<')))
            return explore.SymBool(f)
        raise UnsupportedInShim('angle comparison window [%s,%s] threshold %s' % (lo, hi, q if q is not None else tlo))

    def _eq(self, o):
        """theta == t for a constant t (in this angle's unit)"""
        if isinstance(o, Angle):
            if o is self:
                return True
            if (o.r, o.p) != (self.r, self.p):
                raise UnsupportedInShim('Angle == Angle in different units')
            dc, ds = self.c - o.c, self.s - o.s
            if dc.iszero() and ds.iszero() and (self.lo, self.hi) == (o.lo, o.hi):
                return True
            zc = explore.ctx().zc
            return explore.SymBool(z3.And(zc.cmp0(dc, '=='), zc.cmp0(ds, '==')))
        try:
            tlo, thi, q = self._threshold(o)
        except UnsupportedInShim:
            raise
        zc = explore.ctx().zc
        if self.lo is None:
            raise UnsupportedInShim('equality test on a windowless angle')
        if q is None:
            if tlo != thi:
                raise UnsupportedInShim('fuzzy equality threshold')
            # numeric threshold in radians: outside window -> False
            if tlo > self.hi * PI_HI or tlo < self.lo * PI_LO - (0 if self.lo >= 0 else 1):
                return False
            raise UnsupportedInShim('Angle == non-pi-multiple constant inside the window')
        if q > self.hi or q < self.lo or (q == self.hi and self.hi_open) or (q == self.lo and self.lo_open):
            return False
        ct = _exact_cos(q)
        st = _exact_cos(q - Fraction(1, 2))
        if ct is None:
            raise UnsupportedInShim('Angle == %s*pi: cosine is irrational' % q)
        f = zc.cmp0(self.c - lift(ct), '==')
        if not (self.lo >= 0 and self.hi <= 1):
            if self.hi - self.lo > 2 or (self.hi - self.lo == 2 and not (self.lo_open or self.hi_open)):
                raise UnsupportedInShim('Angle == const on a window wider than one turn')
            sgn = _sin_sign(q)
            f = z3.And(f, zc.cmp0(self.s, '>' if sgn > 0 else ('<' if sgn < 0 else '==')))
        return explore.SymBool(f)

    def __eq__(self, o):
        if isinstance(o, np.ndarray):
            return NotImplemented
        return self._eq(o)

    def __ne__(self, o):
        if isinstance(o, np.ndarray):
            return NotImplemented
        return _not(self._eq(o))

    def __hash__(self):
        return 1

    def _refiner(self, o, strict):
        """callback refining this angle's window once `theta < t` (or <=) has been decided"""
        try:
            tlo, thi, q = self._threshold(o)
        except UnsupportedInShim:
            return None
        if q is None:
            return None

        def cb(d):
            if d:      # theta < q  (or <= q)
                if self.hi is None or q < self.hi or (q == self.hi and strict):
                    self.hi, self.hi_open = q, strict
            else:      # theta >= q (or > q)
                if self.lo is None or q > self.lo or (q == self.lo and not strict):
                    self.lo, self.lo_open = q, not strict
        return cb

    def _lt_r(self, o, strict):
        r = self._lt(o, strict)
        if isinstance(r, explore.SymBool) and r.cb is None:
            r.cb = self._refiner(o, strict)
        return r

    def __lt__(self, o):
        return self._lt_r(o, True)

    def __le__(self, o):
        return self._lt_r(o, False)

    def __gt__(self, o):
        return _not(self._lt_r(o, False))

    def __ge__(self, o):
        return _not(self._lt_r(o, True))

    def __repr__(self):
        return 'Angle(c=%r, s=%r, win=[%s,%s], r=%s, p=%s)' % (self.c, self.s, self.lo, self.hi, self.r, self.p)


def _not(b):
    if isinstance(b, explore.SymBool):
        return ~b
    return not b


def _exact_cos(q):
    """cos(q*pi) when rational (Niven), else None"""
    q = q % 2
    table = {Fraction(0): 1, Fraction(1, 3): Fraction(1, 2), Fraction(1, 2): 0, Fraction(2, 3): Fraction(-1, 2), Fraction(1): -1,
             Fraction(4, 3): Fraction(-1, 2), Fraction(3, 2): 0, Fraction(5, 3): Fraction(1, 2)}
    v = table.get(q)
    return None if v is None else Fraction(v)


def _sin_sign(q):
    q = q % 2
    if q == 0 or q == 1:
        return 0
    return 1 if q < 1 else -1


def _cos_of(q, t):
    if q is not None:
        table = {Fraction(0): 1, Fraction(1, 2): 0, Fraction(1): -1, Fraction(1, 3): Fraction(1, 2), Fraction(2, 3): Fraction(-1, 2)}
        if q in table:
            return Fraction(table[q])
        return _rat(mpmath.cos(mpmath.pi * q.numerator / q.denominator))
    return cos_const(t)


def _sin_of(q, t):
    if q is not None:
        table = {Fraction(0): 0, Fraction(1, 2): 1, Fraction(-1, 2): -1, Fraction(1, 6): Fraction(1, 2), Fraction(-1, 6): Fraction(-1, 2)}
        if q in table:
            return Fraction(table[q])
        return _rat(mpmath.sin(mpmath.pi * q.numerator / q.denominator))
    return sin_const(t)


# inverse trig constructors -------------------------------------------------------------------

def arccos(x):
    x = lift(x)
    return Angle(x, (lambda: (1 - x * x).sqrt()), 0, 1)


def arcsin(x):
    x = lift(x)
    return Angle((1 - x * x).sqrt(), x, Fraction(-1, 2), Fraction(1, 2))


def arctan(t):
    t = lift(t)
    r = (1 + t * t).sqrt()
    return Angle(1 / r, t / r, Fraction(-1, 2), Fraction(1, 2), True, True)


def arctan2(y, x):
    y = lift(y)
    x = lift(x)
    r = (x * x + y * y).sqrt()
    return Angle(x / r, y / r, -1, 1, True, False)


def degrees(a):
    if isinstance(a, Angle):
        if not a.is_rad():
            raise UnsupportedInShim('degrees() of non-radian angle')
        return a.in_unit('deg')
    raise UnsupportedInShim('degrees of %r' % type(a))
