"""Check driver: units in a process pool, verdict bookkeeping, evidence, known findings, replay files."""
import hashlib
import importlib
import inspect
import json
import multiprocessing as mp
import os
import sys
import time
import traceback

import z3

from . import smt
from .field import EngineError

VERIF = os.path.dirname(os.path.dirname(os.path.abspath(__file__)))
EXIT_OK, EXIT_VIOLATION, EXIT_HARNESS = 0, 1, 2


INFEASIBLE = 'INFEASIBLE'


class Unit:
    """result collector handed to a property's run_unit"""

    def __init__(self, name):
        self.name = name
        self.results = []
        self.paths = 0
        self.decisions = 0
        self.validated = 0
        self.samples = []
        self.notes = []
        self.exhaustive = True

    # -- low level
    def add(self, key, status, detail='', witness=None, replay=None, info=None):
        assert status in ('discharged', 'violated', 'inconclusive', 'error')
        self.results.append({'key': key, 'unit': self.name, 'status': status, 'detail': detail,
                             'witness': witness, 'replay': replay, 'info': info or {}})

    def prove(self, key, assumptions, goal, timeout=20.0, cvc5_timeout=None, replay=None, detail='',
              order=('z3', 'cvc5'), sample=False, pin=None):
        """decide  assumptions => goal.  replay(model) -> (reproduced: bool, replay_record, text)"""
        t0 = time.time()
        if z3.is_true(z3.simplify(goal)) if not isinstance(goal, bool) else goal:
            # goal normalised to True: still one (trivial) solver query so that the verdict is the solver's
            st, model, info = smt.solve(list(assumptions) + [z3.BoolVal(False)], timeout_s=timeout, want_model=False)
        else:
            st, model, info = smt.solve(list(assumptions) + [z3.Not(goal)], timeout_s=timeout,
                                        cvc5_timeout_s=cvc5_timeout, order=order)
        info = dict(info)
        info['t'] = round(time.time() - t0, 3)
        if os.environ.get('VERIF_DEBUG'):
            print('   [%s] %s %s %.2fs %s' % (self.name, key, st, info['t'], info.get('solver')), file=sys.stderr, flush=True)
        if st == 'unsat':
            self.add(key, 'discharged', detail, info=info)
            if sample and len(self.samples) < 3:
                self.samples.append({'obligation': key, 'verdict': 'unsat', 'detail': detail[:300]})
            return 'discharged'
        if st == 'unknown':
            self.add(key, 'inconclusive', detail + ' [solver unknown within %.0fs]' % timeout, info=info)
            return 'inconclusive'
        # sat: candidate violation -> replay on the real code
        wit = {k: (float(v) if not isinstance(v, (bool, str)) and v is not None else v) for k, v in (model or {}).items()
               if isinstance(v, (int, float, bool, str)) or hasattr(v, 'numerator')}
        if replay is None:
            self.add(key, 'error', detail + ' [sat but no replay function]', witness=wit, info=info)
            return 'error'
        try:
            ok, record, text = replay(model)
        except Exception as e:
            self.add(key, 'error', detail + ' [replay crashed: %r]' % (e,), witness=wit, info=info)
            return 'error'
        if ok:
            if pin is not None:
                # a listed finding is characterised by the formula the code satisfies instead (pin): if the pin
                # does not hold either, this is a different violation and gets a different key
                pst, _, _ = smt.solve(list(assumptions) + [z3.Not(pin)], timeout_s=timeout, cvc5_timeout_s=cvc5_timeout, want_model=False)
                if pst != 'unsat':
                    key = key + '#pin-not-established(%s)' % pst
                else:
                    detail = detail + ' [pin formula holds]'
            self.add(key, 'violated', detail + ' :: ' + text, witness=wit, replay=record, info=info)
            return 'violated'
        if ok is None:
            # model lies outside what floats can represent / reproduce: inconclusive, not a verdict
            self.add(key, 'inconclusive', detail + ' [model not reproducible in binary64: %s]' % text, witness=wit, info=info)
            return 'inconclusive'
        self.add(key, 'error', detail + ' [solver model does not reproduce on the real code: %s]' % text, witness=wit, info=info)
        return 'error'

    def reach(self, key, assumptions, timeout=20.0, hints=None, soft=False):
        """reachability twin: the assumptions themselves must be satisfiable.  returns model or None.
        `hints` (equalities fixing independent inputs) only speed up the search for a witness."""
        t0 = time.time()
        st = 'unknown'
        if hints:
            st, model, info = smt.solve(list(assumptions) + list(hints), timeout_s=min(timeout, 10.0), cvc5_timeout_s=0)
        if st != 'sat':
            st, model, info = smt.solve(list(assumptions), timeout_s=timeout, cvc5_timeout_s=timeout)
        if os.environ.get('VERIF_DEBUG'):
            print('   [%s] reach %s %s %.2fs %s' % (self.name, key, st, time.time() - t0, info.get('solver')), file=sys.stderr, flush=True)
        if st == 'unsat':
            if soft:
                # a path kept only because its feasibility query was `unknown` turned out infeasible: pruned, not an error
                self.notes.append('path %s pruned: path condition unsatisfiable' % key)
                self.pruned = getattr(self, 'pruned', 0) + 1
                return INFEASIBLE
            self.add(key + '/reach', 'error', 'vacuous: assumptions are unsatisfiable')
            return None
        if st == 'unknown':
            self.notes.append('reachability twin of %s inconclusive' % key)
            return None
        return model

    def asdict(self):
        return {'name': self.name, 'results': self.results, 'paths': self.paths, 'decisions': self.decisions,
                'validated': self.validated, 'samples': self.samples, 'notes': self.notes,
                'exhaustive': self.exhaustive, 'stats': smt.STATS.asdict()}


def _worker(args):
    import logging
    logging.disable(logging.CRITICAL)
    modname, unit_desc, tier, seed = args
    smt.STATS = smt.Stats()
    mod = importlib.import_module(modname)
    u = Unit(str(unit_desc.get('name', unit_desc)))
    t0 = time.time()
    try:
        mod.run_unit(u, unit_desc, tier, seed)
    except EngineError as e:
        u.add('engine', 'error', 'EngineError in unit %s: %s\n%s' % (u.name, e, traceback.format_exc()[-1500:]))
    except Exception as e:
        u.add('engine', 'error', 'crash in unit %s: %r\n%s' % (u.name, e, traceback.format_exc()[-1500:]))
    d = u.asdict()
    d['wall_s'] = round(time.time() - t0, 2)
    return d


def _child(conn, args):
    try:
        conn.send(_worker(args))
    except BaseException as e:      # noqa
        try:
            conn.send({'name': str(args[1].get('name')), 'results': [{'key': 'engine', 'unit': str(args[1].get('name')), 'status': 'error',
                                                                       'detail': 'unit crashed: %r' % (e,), 'witness': None, 'replay': None, 'info': {}}],
                       'paths': 0, 'decisions': 0, 'validated': 0, 'samples': [], 'notes': [], 'exhaustive': False, 'stats': smt.Stats().asdict(), 'wall_s': 0})
        except Exception:
            pass
    finally:
        conn.close()


def _run_units(modname, units, tier, seed, procs, unit_timeout):
    """one process per unit, at most `procs` at a time, hard wall-clock limit per unit (a unit that exceeds it is reported as
    inconclusive and non-exhaustive, never as held)"""
    import signal
    ctxm = mp.get_context('fork')
    pending = list(units)
    running = {}
    results = []
    while pending or running:
        while pending and len(running) < procs:
            ud = pending.pop(0)
            pc, cc = ctxm.Pipe(duplex=False)
            p = ctxm.Process(target=_child, args=(cc, (modname, ud, tier, seed)))
            p.daemon = False
            p.start()
            cc.close()
            running[p.pid] = (p, pc, ud, time.time())
        done = []
        for pid, (p, pc, ud, t0) in running.items():
            if pc.poll(0.02):
                try:
                    results.append(pc.recv())
                except EOFError:
                    results.append(_timeout_result(ud, 'unit process died'))
                done.append(pid)
            elif not p.is_alive():
                results.append(_timeout_result(ud, 'unit process exited without a result'))
                done.append(pid)
            elif time.time() - t0 > unit_timeout:
                try:
                    os.killpg(os.getpgid(pid), 0)
                except Exception:
                    pass
                p.kill()
                results.append(_timeout_result(ud, 'unit exceeded its wall-clock budget of %.0f s and was stopped' % unit_timeout))
                done.append(pid)
        for pid in done:
            p, pc, ud, t0 = running.pop(pid)
            p.join(timeout=5)
            pc.close()
        if not done:
            time.sleep(0.05)
    return results


def _timeout_result(ud, why):
    name = str(ud.get('name', ud))
    return {'name': name, 'results': [{'key': 'unit:%s' % name, 'unit': name, 'status': 'inconclusive', 'detail': why, 'witness': None, 'replay': None, 'info': {}}],
            'paths': 0, 'decisions': 0, 'validated': 0, 'samples': [], 'notes': [why + ' (' + name + ')'], 'exhaustive': False,
            'stats': smt.Stats().asdict(), 'wall_s': 0}


def load_known(pid):
    path = os.path.join(VERIF, 'known_findings.json')
    if not os.path.exists(path):
        return []
    return [e for e in json.load(open(path)) if e.get('property') == pid]


def func_hashes(names):
    out = []
    for qn in names:
        modname, _, fn = qn.rpartition('.')
        try:
            mod = importlib.import_module(modname)
            obj = mod
            for part in fn.split('.'):
                obj = getattr(obj, part)
            src = inspect.getsource(obj)
            out.append({'function': qn, 'sha256': hashlib.sha256(src.encode()).hexdigest()[:16],
                        'file': os.path.relpath(inspect.getsourcefile(obj), '/repo') if inspect.getsourcefile(obj) else '?'})
        except Exception as e:
            out.append({'function': qn, 'sha256': None, 'error': repr(e)})
    return out


def run_check(pid, tier, seed=0, procs=None):
    t0 = time.time()
    modname = 'props.%s' % pid.lower()
    mod = importlib.import_module(modname)
    units = mod.units(tier)
    units = sorted(units, key=lambda d: -d.get('cost', 0))     # longest first (tail latency)
    if os.environ.get('VERIF_ONLY_UNITS'):          # development only: run the units whose name matches (evidence of such a run is partial)
        import re as _re
        units = [d for d in units if _re.search(os.environ['VERIF_ONLY_UNITS'], d['name'])]
    procs = procs or min(16, max(1, len(units)))
    results = []
    unit_timeout = float(os.environ.get('VERIF_UNIT_TIMEOUT', getattr(mod, 'UNIT_TIMEOUT', {}).get(tier, 420 if tier == 'quick' else 1200)))
    if os.environ.get('VERIF_SERIAL'):
        for ud in units:
            results.append(_worker((modname, ud, tier, seed)))
    else:
        results = _run_units(modname, units, tier, seed, procs, unit_timeout)
    results.sort(key=lambda d: d['name'])
    return finish(pid, tier, seed, mod, results, time.time() - t0)


def finish(pid, tier, seed, mod, unit_results, wall):
    known = load_known(pid)
    known_active = {e['key']: e for e in known if e.get('status') == 'known'}
    stats = smt.Stats()
    allres = []
    paths = decisions = validated = 0
    samples = []
    notes = []
    exhaustive = True
    for d in unit_results:
        stats.merge(d['stats'])
        allres.extend(d['results'])
        paths += d['paths']
        decisions += d['decisions']
        validated += d['validated']
        samples.extend(d['samples'][:2])
        notes.extend(d['notes'])
        exhaustive = exhaustive and d['exhaustive']
    counts = {'discharged': 0, 'violated': 0, 'inconclusive': 0, 'error': 0}
    violations = []
    known_hit = []
    errors = []
    for r in allres:
        counts[r['status']] += 1
        if r['status'] == 'violated':
            if r['key'] in known_active:
                known_hit.append(r)
            else:
                violations.append(r)
        elif r['status'] == 'error':
            errors.append(r)
    repdir = os.path.join(os.environ.get('VERIF_EVIDENCE_DIR') or VERIF, 'replays', pid)
    os.makedirs(repdir, exist_ok=True)
    evdir = os.environ.get('VERIF_EVIDENCE_DIR') or os.path.join(VERIF, 'evidence')
    os.makedirs(evdir, exist_ok=True)
    printed = set()
    for r in known_hit:
        if r['key'] not in printed:
            printed.add(r['key'])
            print('KNOWN-FINDING: property=%s %s (%s)' % (pid, r['key'], known_active[r['key']].get('what', '')[:160]))
    vio_lines = []
    for i, r in enumerate(violations):
        path = os.path.join(repdir, '%s_%d.json' % (tier, i))
        rec = {'property': pid, 'key': r['key'], 'unit': r['unit'], 'detail': r['detail'], 'witness': r['witness'],
               'replay': r['replay']}
        with open(path, 'w') as fh:
            json.dump(rec, fh, indent=1, default=str)
        vio_lines.append('VIOLATION property=%s replay=%s' % (pid, path))
        print('  violated obligation %s: %s' % (r['key'], r['detail'][:400]))
    for r in errors[:20]:
        print('  HARNESS-ERROR %s: %s' % (r['key'], r['detail'][:1500]), file=sys.stderr)
    # stale known findings (listed but not observed) are reported, they suppress nothing
    for k in known_active:
        if k not in printed:
            notes.append('known finding %s listed but not observed in this run (tier %s)' % (k, tier))
    nob = len(allres)
    # evidence
    if not samples:
        samples = [{'obligation': r['key'], 'verdict': r['status'], 'detail': r['detail'][:200]} for r in allres[:3]]
    for r in (violations + known_hit)[:3]:
        samples.append({'obligation': r['key'], 'verdict': r['status'], 'witness': r['witness'], 'detail': r['detail'][:300]})
    meta = getattr(mod, 'META', {})
    ev = {
        'property_id': pid, 'tier': tier, 'seed': int(seed), 'level': 'model_checking',
        'coverage': {
            'states': max(paths, 1) if nob else 0, 'transitions': max(decisions, nob, 1) if nob else 0,
            'traces_validated_against_impl': validated,
            'samples': samples[:8] or [{'note': 'no obligations'}],
            'obligations': nob, 'discharged': counts['discharged'], 'inconclusive': counts['inconclusive'],
            'violated_known': len(known_hit), 'violated_new': len(violations), 'harness_errors': len(errors),
            'exhaustive': bool(exhaustive and counts['inconclusive'] == 0 and not errors),
            'explanation': meta.get('explanation', ''),
            'functions_encoded': func_hashes(meta.get('functions', [])),
            'bounds': meta.get('bounds', {}), 'outside_claim': meta.get('outside_claim', []),
            'stubs_used': meta.get('stubs', []),
            'queries': stats.asdict(),
            'units': [{'name': d['name'], 'wall_s': d['wall_s'], 'paths': d['paths'],
                       'obligations': len(d['results'])} for d in unit_results][:300],
            'inconclusive_obligations': [r['key'] + ' :: ' + r['detail'][:120] for r in allres if r['status'] == 'inconclusive'][:60],
            'known_findings_observed': sorted(printed),
            'notes': notes[:40],
        },
        'assumptions': meta.get('assumptions', []),
        'wall_s': round(wall, 2),
        'violations': len(violations),
    }
    with open(os.path.join(evdir, '%s.json' % pid), 'w') as fh:
        json.dump(ev, fh, indent=1, default=str)
    print('%s %s: obligations=%d discharged=%d inconclusive=%d known=%d new-violations=%d errors=%d paths=%d validated=%d '
          'queries=%d solver_s=%s wall=%.1fs' % (pid, tier, nob, counts['discharged'], counts['inconclusive'], len(known_hit),
                                                  len(violations), len(errors), paths, validated, stats.queries,
                                                  {k: round(v, 1) for k, v in stats.solver_time.items()}, wall))
    for ln in vio_lines:
        print(ln)
    if violations:
        return EXIT_VIOLATION
    if errors or nob == 0:
        return EXIT_HARNESS
    return EXIT_OK
