"""validate MANIFEST.json and evidence files against the schemas (run with python3-vt)"""
import json, sys, glob, jsonschema
m = json.load(open('/verif/MANIFEST.json'))
jsonschema.validate(m, json.load(open('/root/.vp/MANIFEST.schema.json')))
print('MANIFEST valid; checks:', [c['property_id'] for c in m['checks']], 'n/a:', [c['property_id'] for c in m.get('not_applicable', [])])
es = json.load(open('/root/.vp/EVIDENCE.schema.json'))
for p in sorted(glob.glob('/verif/evidence/*.json')):
    jsonschema.validate(json.load(open(p)), es)
    print('evidence valid', p)
