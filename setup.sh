#!/bin/bash
# offline self-test: tooling present, xfab importable from /repo's working tree
set -e
cd "$(dirname "$0")"
PYTHONPATH=/repo:/verif python3-vt -c "
import numpy, sympy, z3, cvc5
import xfab.tools, xfab.laue, xfab.symmetry, xfab.structure, xfab.detector, xfab.parameters, xfab.sg
print('setup ok: numpy', numpy.__version__, 'sympy', sympy.__version__, 'z3', z3.get_version_string())
" 2>&1 | grep -v -i conda
mkdir -p evidence replays
