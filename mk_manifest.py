#!/usr/bin/env python3
"""regenerate MANIFEST.json from the table below (run after landing a check)"""
import json
import os

HERE = os.path.dirname(os.path.abspath(__file__))
IDS = [json.loads(l)['id'] for l in open(os.path.join(HERE, 'properties.jsonl'))]

TRUST = ('Trusted base: the engine (vengine/: fraction-field normaliser over sympy polynomial rings, numpy shim, Angle/window model of '
         'inverse trig functions, path explorer), z3 5.1 and cvc5 1.4; exact real arithmetic instead of binary64; stubs listed in the '
         'evidence file. Every sat answer is replayed on the real code with real numpy before it is reported; every explored path is '
         'cross-checked numerically against the real function at a solver-produced witness.')

# pid -> (technique, level text, extra note, design ref)
CHECKS = {
    'C01': ('symbolic execution of the real tools/laue functions on a symbolic cell; polynomial identities and inequalities decided by z3/cvc5 (QF_NRA)',
            'Bounded model checking over exact reals: each of ~80 obligations (metric identities, triangularity, positivity, volume, sintl, '
            'round trips) is unsat-checked for every cell in the stated domain; one path per function (no branches).', '', '6/C01'),
    'C02': ('symbolic execution of the real UBI/U/B conversion functions on a unit-quaternion rotation and symbolic cell; path exploration of ub_to_u_b under a QR contract stub; identities decided by z3/cvc5 (QF_NRA)',
            'Bounded model checking over exact reals: UBI.(U.B.h)=kappa.h, UBI rows = lattice vectors, ubi_to_cell/ubi_to_u/ubi_to_rod/ubi_to_u_b round trips for all U in SO(3) and all valid cells; '
            'ub_to_u_b for every UB=U0.B0 and every sign pattern a QR routine may return (8 paths).', 'numpy.linalg.qr is replaced by its mathematical contract (over-approximating LAPACK sign choices).', '6/C02'),
    'C13': ('symbolic execution of the real strain functions on symbolic cells (second cell = strained lattice) and a unit-quaternion rotation; rational-function identities decided by z3/cvc5 (QF_NRA)',
            'Bounded model checking over exact reals: both strain pairs are mutual inverses, equal the harness oracle sym(B0.inv(B))-I resp. sym(A.inv(A0))-I, '
            'epsilon_to_b yields a B matrix (upper triangular, positive diagonal for |eps|<=0.1), ubi_to_u_and_eps returns (U, eps) for the module\'s own UBI.',
            'Known finding (pinned): tools.ubi_to_u_and_eps returns 2*pi*(I+eps)-I.', '6/C13'),
    'C16': ('symbolic execution of the real FormFactor on a symbolic s; transcendental exp decided by cvc5 (QF_NRAT) for every real s in [0,2]',
            'Bounded model checking: per element 4 obligations (formula equals live table, |f(0)-Z|<=0.1, f>0 on [0,2], df/ds<0 on (0,2]) decided for all real s, '
            'not on a grid; all 94 table entries.', '', '6/C16'),
    'C10': ('symbolic execution of the real detector functions on symbolic angles/geometry; rational-function identities by z3/cvc5 (QF_NRA); ray-parameter positivity by solver-checked assume-guarantee decomposition',
            'Bounded model checking over exact reals: det_coor = det_coor2, back-projected point on the scattered ray, det_v = v, detect_tilt = Rx.Ry.Rz orthonormal, '
            'denominator and ray parameter positive on the whole stated domain.', '', '6/C10'),
}
NA_REASON = {}


def main():
    checks = []
    for pid in IDS:
        if pid not in CHECKS:
            continue
        tech, text, note, ref = CHECKS[pid]
        checks.append({
            'property_id': pid,
            'quick_cmd': './check %s --tier quick' % pid,
            'thorough_cmd': './check %s --tier thorough' % pid,
            'evidence_file': 'evidence/%s.json' % pid,
            'replay_cmd_template': './check %s --replay {path}' % pid,
            'engine': 'vengine',
            'level_claimed': {'category': 'model_checking', 'text': text, 'design_ref': 'DESIGN.md section ' + ref},
            'level_note': (note + ' ' if note else '') + TRUST,
            'technique': tech,
        })
    na = [{'property_id': p, 'reason': NA_REASON.get(p, 'check not built yet (work in progress; DESIGN.md section 6 describes the planned solver-based check)')}
          for p in IDS if p not in CHECKS]
    m = {
        'version': 1,
        'setup_cmd': './setup.sh',
        'hooks': {
            'guard': 'XFAB_VERIF',
            'enable': 'none needed: the engine executes the unmodified functions of /repo under python3-vt with PYTHONPATH=/repo and rebinds '
                      'module globals (n/np, degrees, float, open) at call time; there are no source hooks',
            'baseline_off_cmd': 'cd /repo && /venv/bin/python -m pytest -ra -q -p no:cacheprovider --timeout=900 --continue-on-collection-errors',
            'source_commits': [],
            'add_only': True,
        },
        'engines': [{'name': 'vengine', 'path': 'vengine/', 'serves_properties': sorted(CHECKS),
                     'kind_free_text': 'symbolic execution of the real Python functions on proxy values (numpy object arrays), '
                                       'exact fraction-field normal form, SMT (z3 + cvc5) for every verdict, replay on the real code'}],
        'checks': checks,
        'notes': 'Solver-based checking of the real code. Exit 0 = no violation within the stated bounds (evidence lists inconclusive obligations); '
                 'exit 1 = replayed violation; exit 2 = harness error. Known findings: known_findings.json.',
        'not_applicable': na,
    }
    json.dump(m, open(os.path.join(HERE, 'MANIFEST.json'), 'w'), indent=1)
    print('MANIFEST.json written: %d checks, %d not applicable' % (len(checks), len(na)))


if __name__ == '__main__':
    main()
