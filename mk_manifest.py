#!/usr/bin/env python3
"""regenerate MANIFEST.json from the table below (run after landing a check)"""
import json
import os

HERE = os.path.dirname(os.path.abspath(__file__))
IDS = [json.loads(l)['id'] for l in open(os.path.join(HERE, 'properties.jsonl'))]

TRUST = ('Trusted base: the engine (vengine/: fraction-field normaliser over sympy polynomial rings, numpy shim, Angle/window model of '
         'inverse trig functions, path explorer), z3 5.1 and cvc5 1.4; exact real arithmetic instead of binary64; stubs listed in the '
         'evidence file. Every sat answer is replayed on the real code with real numpy before it is reported; every explored path is '
         'cross-checked numerically against the real function at a solver-produced witness.')

# pid -> (technique, level text, extra note, design ref)
CHECKS = {
    'C01': ('symbolic execution of the real tools/laue functions on a symbolic cell; polynomial identities and inequalities decided by z3/cvc5 (QF_NRA)',
            'Bounded model checking over exact reals: each of ~80 obligations (metric identities, triangularity, positivity, volume, sintl, '
            'round trips) is unsat-checked for every cell in the stated domain; one path per function (no branches).', '', '6/C01'),
    'C02': ('symbolic execution of the real UBI/U/B conversion functions on a unit-quaternion rotation and symbolic cell; path exploration of ub_to_u_b under a QR contract stub; identities decided by z3/cvc5 (QF_NRA)',
            'Bounded model checking over exact reals: UBI.(U.B.h)=kappa.h, UBI rows = lattice vectors, ubi_to_cell/ubi_to_u/ubi_to_rod/ubi_to_u_b round trips for all U in SO(3) and all valid cells; '
            'ub_to_u_b for every UB=U0.B0 and every sign pattern a QR routine may return (8 paths); history independence: a conversion preceded by the same conversion with a cell whose first length differs by a factor 1+dl, |dl|<=1e-4, returns the result of its own cell.', 'numpy.linalg.qr is replaced by its mathematical contract (over-approximating LAPACK sign choices).', '6/C02'),
    'C13': ('symbolic execution of the real strain functions on symbolic cells (second cell = strained lattice) and a unit-quaternion rotation; rational-function identities decided by z3/cvc5 (QF_NRA)',
            'Bounded model checking over exact reals: both strain pairs are mutual inverses, equal the harness oracle sym(B0.inv(B))-I resp. sym(A.inv(A0))-I, '
            'epsilon_to_b yields a B matrix (upper triangular, positive diagonal for |eps|<=0.1), ubi_to_u_and_eps returns (U, eps) for the module\'s own UBI; '
            'the functions leave array arguments unchanged and a repeated call with the same array object returns the same result; results follow in-place changes of the cell list (history group).',
            'Known finding (pinned): tools.ubi_to_u_and_eps returns 2*pi*(I+eps)-I.', '6/C13'),
    'C16': ('symbolic execution of the real FormFactor on a symbolic s; transcendental exp decided by cvc5 (QF_NRAT) for every real s in [0,2]',
            'Bounded model checking: per element 4 obligations (formula equals live table, |f(0)-Z|<=0.1, f>0 on [0,2], df/ds<0 on (0,2]) decided for all real s, '
            'not on a grid; all 94 table entries.', '', '6/C16'),
    'C10': ('symbolic execution of the real detector functions on symbolic angles/geometry; rational-function identities by z3/cvc5 (QF_NRA); ray-parameter positivity by solver-checked assume-guarantee decomposition',
            'Bounded model checking over exact reals: det_coor = det_coor2, back-projected point on the scattered ray, det_v = v, detect_tilt = Rx.Ry.Rz orthonormal, '
            'denominator and ray parameter positive on the whole stated domain.', '', '6/C10'),
    'C03': ('symbolic execution of the real rotation constructors and of u_to_euler/u_to_rod; path exploration of u_to_euler/_arctan2 with exact thresholds; identities and tolerance inequalities decided by z3/cvc5 (QF_NRA); assume-guarantee decomposition of the 1e-6 rebuild bound',
            'Bounded model checking over exact reals: all constructors for all angles/vectors; u_to_euler explored path by path (about 570 paths in the quick tier) on the Bunge parametrisation of SO(3); '
            'generic region exhaustive, gimbal-lock regions under a path/time budget (reported non-exhaustive, inconclusive obligations listed).', '', '6/C03'),
    'C04': ('finite relation encoding of the live space-group tables; closure/inverse/duplicate/nuniq obligations with one symbolic member (QF_LIA, mod 24); metric preservation in linear real arithmetic over the whole conforming family',
            'Model checking of all 237 tables: group axioms with a solver variable ranging over the table, metric preservation for every conforming cell at once; Laue order, centring count and name lookup are finite computations on the live tables.', '', '6/C04'),
    'C09': ('symbolic execution of the four real omega solvers (paths: none/two solutions, sign forks); diffraction-condition identities and completeness facts decided by z3/cvc5 (QF_NRA)',
            'Bounded model checking over exact reals: for every g direction, theta in (0.25,75) deg and tilts up to 0.5 rad each returned (omega,eta) satisfies the three component equations under the module\'s own matrix; '
            'completeness via discriminant sign and affine structure of the condition; tth = 2 asin(lambda sintl) = tth2; history: every call under test is preceded by calls of the tilted solvers with other tilts (chi = wedge = 0), and the tilted solvers are additionally analysed with wedge = 0 exactly after such calls.', 'find_omega_quart is analysed with the proved summary of its callee quart_to_omega.', '6/C09'),
    'C20': ('symbolic execution of the real input checks with numpy.allclose as its tolerance formula; accept/reject obligations as path (in)feasibility decided by z3/cvc5 (QF_NRA); switch semantics by enumeration of assigned objects over a symbolic pre-state',
            'Bounded model checking: every proper rotation perturbed by <=1e-7 per entry is accepted, improper rotations and single-entry perturbations of 1e-3..1 are rejected at every guarded entry point, Euler-angle and UBI checks reject exactly the invalid inputs, '
            'switch accepts only True/False.', '', '6/C20'),
    'C05': ('path exploration of the real sysabs on solver integers for all 237 settings; (sysabs != 0) <=> extinct-by-the-operators decided in QF_LIA (mod by constants) on every path, restricted to the lattice region the genhkl traversal can visit (segment tables read from the current source by AST); counterexamples confirmed through genhkl_all',
            'Model checking of the reflection-condition half of the property: for every setting, every path of sysabs (about 10 000 paths in total) and every integer hkl with |h|<=24 in the traversal region, the function agrees with the group\'s own (R,t) table; '
            'R-centred groups: hexagonal and rhombohedral settings agree under the obverse transformation. The traversal geometry (no lattice point skipped) is not covered here.', 'Claim restricted to the reflection conditions; which lattice points genhkl_base visits is outside this check.', '6/C05'),
    'C07': ('symbolic execution of the real StructureFactor on one symbolic atom (trig-sum normal form of the phases, exp as uninterpreted atoms, symbolic metric of the crystal family); covariance identities decided by z3/cvc5 for concrete box hkl',
            'Bounded model checking: F(hR)=F(h)exp(-2 pi i h.t) for every operation of the group and every orbit representative of the hkl box, extinct => F=0, Friedel; all atom parameters symbolic; quick: 27 groups covering every Laue class, thorough: all 230.', 'sintl and cell_invert enter through their C01 summaries.', '6/C07'),
    'C08': ('same harness as C07: StructureFactor against the explicit sum over image atoms written in the harness; identities decided by z3/cvc5',
            'Bounded model checking: explicit-sum equality, lattice-shift invariance, linearity in occupancy, Uiso == equivalent Uani, F(000) with zero ADP; box hkl, one symbolic atom, symbolic metric of the family.', 'sintl and cell_invert enter through their C01 summaries.', '6/C08'),
    'C11': ('enumeration of the 81 orientation matrices (they select control flow) with everything else symbolic: images as index maps of symbolic shape, pixel coordinates as solver integers/reals (QF_LIA/LRA); eta/radius on the fraction-field proxies (QF_NRA)',
            'Model checking: image round trips, pixel-map agreement with trans_orientation and coordinate round trips decided for every detector shape n0,n1 >= 1 and every pixel at once; invalid matrices rejected; eta/radius conversions mutual inverses for r >= 1 on every path.', '', '6/C11'),
    'C15': ('path exploration of the real multiplicity on solver reals (positions in affine families over boxes, integer lattice shifts) with floor/round as to_int terms (QF_LIRA); grid points as exact binary64 inputs; orbit-stabiliser oracle from the ideal operators',
            'Model checking: for each setting the loop of multiplicity is unrolled by execution; every merge test is a solver decision valid for all positions of the family (x,y,z), (x,x,z), (x,2x,z), (x,-x,z) in the stated boxes with any lattice shift in [-2,2]^3; '
            'grid points (8 points x 3 shifts) are concrete runs against the exact oracle.', 'Quick tier: families only for groups with <= 16 operations and four larger sample groups.', '6/C15'),
    'C14': ('differential symbolic execution: tools.f and laue.f run in one program on the same symbolic inputs, joint path exploration, result expressions compared by z3/cvc5 (QF_NRA / QF_LIA); genhkl_* and reduce_cell compared on a concrete sample (enumeration)',
            'Bounded model checking of 41 function pairs over the input spaces of C01-C03/C09/C13 (exact reals, all paths up to the stated budgets); the 2*pi convention is applied to B-valued outputs and B/g-valued inputs.', 'Known finding: ubi_to_u_and_eps (strain) differs between the modules (see C13).', '6/C14'),
    'C12': ('symbolic execution of permutations/rotations (exact tables in Q(sqrt 3) through the real form_b_mat) and of Umis on two unit-quaternion rotations; group axioms, pairing identity for a symbolic conforming cell and Umis invariance identities decided by normal form + z3/cvc5 (QF_NRA)',
            'Bounded model checking over exact reals: all 7 crystal systems, all pairs of operators, all pairs of proper rotations, all conforming cells. The obligation that the arccos argument lies in [-1,1] is decided through sum-of-squares certificates (identities on the real expressions plus two abstract inequalities).',
            'ndarray.clip is modelled as the identity, justified by that obligation.', '6/C12'),
    'C17': ('execution of the real CIFread/remove_esd/PDBread on files whose numeric fields are opaque tokens mapped to solver reals by float()/int() contract stubs; all string handling of the code runs for real; field-by-field equalities checked with z3 (linear real arithmetic)',
            'Bounded checking: 180 CIF reads (30 configurations x a sequence of 6 atom-type-loop variants that contains every ordered pair of variants, read by fresh readers in one process with alternating element sets: reader history) and 3 PDB files with 2 atoms each, every numeric value symbolic; verdicts are equalities between solver terms. String-theory solving is not used: the decisive symbolic part is the numeric content, the structural part is enumerated.',
            'PyCifRW and Python\'s float grammar are outside the claim.', '6/C17'),
    'C19': ('execution of the real parameters class with symbolic values and contract stubs for str/float/int (nearest-double function with rounding contract); path exploration of dumbtypecheck; value/type obligations decided by z3 (LIA/LRA with an uninterpreted rounding function); bounded enumeration of API call sequences against a dictionary model',
            'Bounded model checking: save/load and dumbtypecheck for every integer, every real standing for a float and opaque strings; all call sequences of length <= 3 over 20 operations with symbolic values (about 11000 sequences), the observers (get, get_parameters, varylist, get_variable_values) compared with the dictionary model after every call; a stored value used as a condition forks the sequence (value == 0 / != 0).', 'Bit-exact float round trip is an assumed contract.', '6/C19'),
    'C18': ('path exploration of the real reduce_cell (search range uvw=1) on symbolic cells ranging over boxes: argsort as a merge sort with solver-decided comparisons, coplanarity tests as path decisions; unimodularity, metric and minimality obligations decided by z3/cvc5 (QF_NRA)',
            'Bounded model checking over three boxes of cells and both modules: selected combinations are concrete on each path; metric equality, unimodularity and minimality of the first two vectors are decided for every cell of the box. '
            'The default search range uvw=3 (sorting 216 symbolic norms) is outside the bound. History: a concrete call with another search range precedes every run (thorough tier: uvw=2 symbolic after uvw=1 concrete, budgeted).', 'Known finding (pinned): rows/columns mix-up in the final a_to_cell step, both modules.', '6/C18'),
    'C06': ('path exploration of the real genhkl_base/genhkl_unique/genhkl_all on a symbolic reciprocal metric of the Laue family and a symbolic shell (sintl through its C01 summary, comparisons on squares => linear real arithmetic for concrete integer hkl); loops unrolled under a cube precondition; set-equality obligations per leaf decided by z3 (QF_LRA)',
            'Bounded model checking: 14 Laue classes/settings (symmorphic representative), lattice cube |h|_inf <= 2 (1 for mmm, 2/m, -1 and the rhombohedral settings), every metric of the stated diagonally dominant region, every shell: genhkl_all lists exactly the in-shell allowed box points once, '
            'genhkl_unique one per Laue family; about 2700 paths in the quick tier (the triclinic class stops at its path budget and is reported non-exhaustive).', 'Ordering of the rows by sin(theta)/lambda is decided for the cubic classes (thorough: also 4/mmm, 6/mmm) with argsort as a merge sort whose comparisons are path decisions; elsewhere argsort is in membership mode. Reflection conditions are C05.', '6/C05-C06'),
}
NA_REASON = {}


def main():
    checks = []
    for pid in IDS:
        if pid not in CHECKS:
            continue
        tech, text, note, ref = CHECKS[pid]
        checks.append({
            'property_id': pid,
            'quick_cmd': './check %s --tier quick' % pid,
            'thorough_cmd': './check %s --tier thorough' % pid,
            'evidence_file': 'evidence/%s.json' % pid,
            'replay_cmd_template': './check %s --replay {path}' % pid,
            'engine': 'vengine',
            'level_claimed': {'category': 'model_checking', 'text': text, 'design_ref': 'DESIGN.md section ' + ref},
            'level_note': (note + ' ' if note else '') + TRUST,
            'technique': tech,
        })
    na = [{'property_id': p, 'reason': NA_REASON.get(p, 'check not built yet (work in progress; DESIGN.md section 6 describes the planned solver-based check)')}
          for p in IDS if p not in CHECKS]
    m = {
        'version': 1,
        'setup_cmd': './setup.sh',
        'hooks': {
            'guard': 'XFAB_VERIF',
            'enable': 'none needed: the engine executes the unmodified functions of /repo under python3-vt with PYTHONPATH=/repo and rebinds '
                      'module globals (n/np, degrees, float, open) at call time; there are no source hooks',
            'baseline_off_cmd': 'cd /repo && /venv/bin/python -m pytest -ra -q -p no:cacheprovider --timeout=900 --continue-on-collection-errors',
            'source_commits': [],
            'add_only': True,
        },
        'engines': [{'name': 'vengine', 'path': 'vengine/', 'serves_properties': sorted(CHECKS),
                     'kind_free_text': 'symbolic execution of the real Python functions on proxy values (numpy object arrays), '
                                       'exact fraction-field normal form, SMT (z3 + cvc5) for every verdict, replay on the real code'}],
        'checks': checks,
        'notes': 'Solver-based checking of the real code. Exit 0 = no violation within the stated bounds (evidence lists inconclusive obligations); '
                 'exit 1 = replayed violation; exit 2 = harness error. Known findings: known_findings.json.',
        'not_applicable': na,
    }
    json.dump(m, open(os.path.join(HERE, 'MANIFEST.json'), 'w'), indent=1)
    print('MANIFEST.json written: %d checks, %d not applicable' % (len(checks), len(na)))


if __name__ == '__main__':
    main()
