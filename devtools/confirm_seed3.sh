#!/bin/bash
# usage: devtools/confirm_seed3.sh C17 1 3   -- confirm /tmp/out3_C17/change1.diff on a scratch worktree of /repo HEAD, store as seeded/C17_3
id=$1; n=$2; as=$3
src=/tmp/out3_$id
wt=/tmp/confirm_wt_$$
[ -f $src/change$n.diff ] || { echo "no $src/change$n.diff"; exit 1; }
git -C /repo worktree add -q --detach $wt HEAD || exit 1
trap "git -C /repo worktree remove --force $wt" EXIT
cd $wt
git apply $src/change$n.diff || { echo "APPLY FAILED"; exit 1; }
tests=$(/venv/bin/python -m pytest -q -p no:cacheprovider 2>&1 | tail -1)
PYTHONPATH=$wt timeout 600 /venv/bin/python $src/demo$n.py > /tmp/demo_with_$id$n.log 2>&1; with=$?
git checkout -q -- .
PYTHONPATH=$wt timeout 600 /venv/bin/python $src/demo$n.py > /tmp/demo_without_$id$n.log 2>&1; without=$?
echo "$id/$n tests: $tests | demo with change exit=$with | without exit=$without"
if echo "$tests" | grep -q "73 passed" && [ $with -ne 0 ] && [ $without -eq 0 ]; then
  d=/verif/seeded/${id}_$as; mkdir -p $d
  cp $src/change$n.diff $d/patch.diff; cp $src/demo$n.py $d/demo.py
  python3 - "$id" "$n" "$tests" "$with" "$without" "$as" <<'PY'
import json,sys,re
id,n,tests,w,wo,as_=sys.argv[1:]
notes=open('/tmp/out3_%s/notes.md'%id).read()
json.dump({'property':id,'change':int(as_),'base':'/repo HEAD (repaired tree, 54fda55)','breaks':'see agent_notes (change %s)'%n,'needs_to_manifest':'see agent_notes (change %s)'%n,'confirmed':{'pytest_with_change':tests,'demo_exit_with_change':int(w),'demo_exit_without_change':int(wo),'how':'scratch worktree of /repo HEAD: git apply patch.diff; pytest; PYTHONPATH=<wt> python demo.py; git checkout -- .; demo again'},'agent_notes':notes[:6000],'detected_by':[]},open('/verif/seeded/%s_%s/meta.json'%(id,as_),'w'),indent=1)
PY
  echo "stored $d"
else
  echo "NOT CONFIRMED"
fi
