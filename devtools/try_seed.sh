#!/bin/bash
# usage: devtools/try_seed.sh <patch.diff> <ID> [ID...]  -- run checks against a scratch worktree of /repo's HEAD with the patch applied
# (development convenience: does not touch /repo, so several seeds can be tried concurrently; evidence/ is NOT what gets committed from these runs)
patch="$1"; shift
wt=/tmp/seedwt_$$
git -C /repo worktree add -q --detach $wt HEAD || exit 9
trap "git -C /repo worktree remove --force $wt" EXIT
cd $wt
git apply "$patch" || { echo "patch does not apply to current HEAD"; exit 9; }
if [ -z "$SKIP_TESTS" ]; then (/venv/bin/python -m pytest -q -p no:cacheprovider 2>&1 | tail -1); fi
cd /verif
for id in "$@"; do
  VERIF_EVIDENCE_DIR=/tmp/seed_evidence_$$ XFAB_REPO=$wt ./check $id --tier ${TIER:-quick} 2>&1 | grep -E "^(VIOLATION|KNOWN|C[0-9]+ (quick|thorough))|HARNESS" | cut -c1-300 | head -${LINES_MAX:-6}
  echo "exit($id)=${PIPESTATUS[0]}"
done
rm -rf /tmp/seed_evidence_$$
