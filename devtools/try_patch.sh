#!/bin/bash
# usage: devtools/try_patch.sh <patch.diff> <ID> [ID...]   -- apply a seeded change to /repo, run the checks, ALWAYS restore /repo
patch="$1"; shift
cd /repo || exit 9
if [ -n "$(git status --porcelain)" ]; then echo "/repo not clean"; exit 9; fi
git apply "$patch" || { echo "patch does not apply"; exit 9; }
trap 'git -C /repo checkout -- . ; echo "[repo restored: $(git -C /repo status --porcelain | wc -l) dirty files]"' EXIT
if [ -z "$SKIP_TESTS" ]; then (/venv/bin/python -m pytest -q -p no:cacheprovider 2>&1 | tail -1); fi
cd /verif
for id in "$@"; do
  VERIF_EVIDENCE_DIR=/tmp/patch_evidence_$$ ./check $id --tier ${TIER:-quick} 2>&1 | grep -E "^(VIOLATION|KNOWN|C[0-9]+ (quick|thorough))|HARNESS" | cut -c1-400 | head -${LINES_MAX:-8}
  echo "exit($id)=${PIPESTATUS[0]}"
done
