"""C03 — every orientation parametrisation yields a proper rotation and inverts exactly (both modules)."""
import importlib
import math
from fractions import Fraction

import numpy as np
import z3

from vengine.field import Field, Q, lift, EngineError
from vengine.angle import Angle, cos_const
from vengine.explore import Ctx
from vengine import smt, core
from vengine.symnp import patched, SYMNP
from . import common as C
from .c02 import rot_from_quat, quat_floats, QN

FUNCS = ['euler_to_u', 'u_to_euler', '_arctan2', 'rod_to_u', 'u_to_rod', 'form_omega_mat', 'form_omega_mat_general', 'quart_to_omega', 'detect_tilt']
META = {
    'explanation': 'Constructors: the real functions run on free (cos,sin) angle pairs / a real Rodrigues vector; obligations M^T.M=I, det M=1 and '
                   'M = documented product of elementary rotations written independently in the harness.  Inverses: u_to_rod on U=R(q); u_to_euler is '
                   'explored path by path on U=Rz(phi1).Rx(PHI).Rz(phi2) (sin PHI>=0; every proper rotation has such a form) with the thresholds 1e-8 as '
                   'exact rationals (cos(1e-8) to 45 digits); on every path: returned angles inside [0,2pi]x[0,pi]x[0,2pi] (from the arctan/arccos '
                   'window model refined by the path decisions) and |euler_to_u(u_to_euler(U)) - U| <= 1e-6 entrywise.',
    'functions': ['xfab.%s.%s' % (m, f) for m in ('tools', 'laue') for f in FUNCS],
    'bounds': {'angles': 'all real angles (free cos/sin pairs)', 'rodrigues': 'all real vectors (superset of |r|<=1e3)',
               'u_to_rod': '1+trace(U) >= 1e-12', 'u_to_euler': 'all proper rotations via the Bunge parametrisation; path budget stated in coverage'},
    'outside_claim': ['binary64 rounding (e.g. arccos near 1)', 'thresholds at resolution finer than 1e-30'],
    'stubs': ['arccos/arctan/arctan2 -> Angle windows', 'numpy.allclose -> tolerance formula', 'abs on symbolic values forks on the sign'],
    'assumptions': ['surjectivity of Bunge Euler angles onto SO(3) with PHI in [0,pi]', 'exact reals; pi enclosure'],
}


def units(tier):
    us = []
    for m in ('tools', 'laue'):
        for g in ('euler_to_u', 'omega_mats', 'quart_to_omega', 'detect_tilt', 'rod', 'u_to_rod'):
            us.append({'name': '%s/%s' % (m, g), 'module': m, 'group': g})
        for region in ('lock0', 'lockpi', 'generic++', 'generic+-', 'generic-+', 'generic--', 'composition', 'composition-lock0', 'composition-lockpi'):
            us.append({'name': '%s/u_to_euler/%s' % (m, region), 'module': m, 'group': 'u_to_euler', 'region': region})
    return us


def run_unit(u, desc, tier, seed):
    modname, group = desc['module'], desc['group']
    mod = importlib.import_module('xfab.' + modname)
    import xfab
    from xfab import checks
    if group == 'u_to_euler':
        return run_u_to_euler(u, desc, mod, modname, checks, tier)
    names = {'euler_to_u': ['c1', 's1', 'cP', 'sP', 'c2', 's2'], 'omega_mats': ['co', 'so', 'cx', 'sx', 'cy', 'sy'],
             'quart_to_omega': ['ch', 'sh', 'cx', 'sx', 'cy', 'sy'], 'detect_tilt': ['cx', 'sx', 'cy', 'sy', 'cz', 'sz'],
             'rod': ['r1', 'r2', 'r3'], 'u_to_rod': QN}[group]
    f = Field(['pi'] + names, naux=4)
    f.positive('pi')
    if group == 'u_to_rod':
        C.quat_setup(f)
    elif group != 'rod':
        for i in range(0, len(names), 2):
            f.angle(names[i], names[i + 1])
    ctx = Ctx(f)
    zc = ctx.zc
    ctx.pre = smt.pi_enclosure(zc)
    v = f.var
    xfab.CHECKS.activated = True
    hint = {}
    if group == 'u_to_rod':
        w = v('qw')
        ctx.pre = ctx.pre + [zc.cmp0(4 * w * w - lift(Fraction(1, 10 ** 12)), '>=')]
        hint = {'qx': '1/3', 'qy': '-1/5', 'qz': '2/7'}
    elif group == 'rod':
        hint = {'r1': '1/3', 'r2': '-2', 'r3': '1/7'}
        ctx.pre = ctx.pre + [zc.cmp0(v('r1') ** 2 + v('r2') ** 2 + v('r3') ** 2 - 10 ** 6, '<=')]
    else:
        hint = {names[i]: h for i, h in zip(range(0, len(names), 2), ('3/5', '-5/13', '12/37'))}

    def A(c, s, **kw):
        return Angle(v(c), v(s), **kw)

    def body():
        with patched(mod, checks):
            if group == 'euler_to_u':
                xfab.CHECKS.activated = False
                try:
                    M = mod.euler_to_u(A('c1', 's1'), A('cP', 'sP'), A('c2', 's2'))
                finally:
                    xfab.CHECKS.activated = True
                # with the checks on and angles known to lie in [0,2pi] the call must be accepted and give the same matrix
                M2 = mod.euler_to_u(A('c1', 's1', lo=0, hi=2), A('cP', 'sP', lo=0, hi=2), A('c2', 's2', lo=0, hi=2))
                return {'M': M, 'M2': M2}
            if group == 'omega_mats':
                return {'Om': mod.form_omega_mat(A('co', 'so')), 'Og': mod.form_omega_mat_general(A('co', 'so'), A('cx', 'sx'), A('cy', 'sy'))}
            if group == 'quart_to_omega':
                w = Angle.double(A('ch', 'sh')).in_unit('deg')
                return {'M': mod.quart_to_omega(w, A('cx', 'sx'), A('cy', 'sy'))}
            if group == 'detect_tilt':
                return {'M': mod.detect_tilt(A('cx', 'sx'), A('cy', 'sy'), A('cz', 'sz'))}
            if group == 'rod':
                r = C.oa([v('r1'), v('r2'), v('r3')])
                Ur = mod.rod_to_u(r)
                return {'M': Ur, 'back': mod.u_to_rod(Ur)}
            if group == 'u_to_rod':
                Uq = C.quat_rot(f)
                rr = mod.u_to_rod(Uq)
                return {'rod': rr, 'back': mod.rod_to_u(rr)}
    leaves, exh = ctx.explore(body, max_paths=64)
    u.exhaustive = exh
    u.decisions = ctx.decisions
    for li, leaf in enumerate(leaves):
        u.paths += 1
        tag = '' if li == 0 else '/path%d' % li
        pre = ctx.base() + leaf['pc']
        rp = mk_replay(f, modname, group)

        def P(name, goal, **kw):
            return u.prove('C03/%s.%s%s' % (modname, name, tag), pre, goal, replay=rp, detail=name, sample=True, **kw)
        if leaf['exception'] is not None:
            P(group + '/no-exception(%r)' % (leaf['exception'],), z3.BoolVal(False))
            continue
        o = leaf['result']
        model = u.reach(desc['name'] + tag, pre, hints=C.hints_from(zc, hint), soft=(li > 0))
        if model is core.INFEASIBLE:
            u.paths -= 1
            continue
        if model is not None:
            env = C.env_from_model(f, model)
            if validate(mod, group, o, env):
                u.validated += 1
            else:
                u.add(desc['name'] + tag + '/translator', 'error', 'symbolic outputs disagree with the real function at the path witness')

        def rot_obl(name, M, expected):
            P(name + '/MtM=I', C.resid_goal(zc, C.flat(np.dot(M.T, M) - C.eye3())))
            P(name + '/det=1', C.resid_goal(zc, [SYMNP.linalg.det(M) - 1]))
            P(name + '/=documented-product', C.resid_goal(zc, C.flat(M - expected)))
        if group == 'euler_to_u':
            exp = C.mdot(C.Rz(v('c1'), v('s1')), C.Rx(v('cP'), v('sP')), C.Rz(v('c2'), v('s2')))
            rot_obl('euler_to_u', o['M'], exp)
            P('euler_to_u/checks-on-accepts-[0,2pi]', C.resid_goal(zc, C.flat(o['M2'] - exp)))
        elif group == 'omega_mats':
            rot_obl('form_omega_mat', o['Om'], C.Rz(v('co'), v('so')))
            rot_obl('form_omega_mat_general', o['Og'], C.mdot(C.Rx(v('cx'), v('sx')), C.Ry(v('cy'), v('sy')), C.Rz(v('co'), v('so'))))
        elif group == 'quart_to_omega':
            ch, sh = v('ch'), v('sh')
            Pm = C.mdot(C.Rx(v('cx'), v('sx')), C.Ry(v('cy'), v('sy')))
            rot_obl('quart_to_omega', o['M'], C.mdot(Pm, C.Rz(ch * ch - sh * sh, 2 * sh * ch), Pm.T))
        elif group == 'detect_tilt':
            rot_obl('detect_tilt', o['M'], C.mdot(C.Rx(v('cx'), v('sx')), C.Ry(v('cy'), v('sy')), C.Rz(v('cz'), v('sz'))))
        elif group == 'rod':
            r = C.oa([v('r1'), v('r2'), v('r3')])
            rho2 = np.dot(r, r)
            cross = C.oa([[0, -r[2], r[1]], [r[2], 0, -r[0]], [-r[1], r[0], 0]])
            outer = C.oa([[r[i] * r[j] for j in range(3)] for i in range(3)])
            Ract = ((1 - rho2) * C.eye3() + 2 * outer + 2 * cross) / (1 + rho2)
            rot_obl('rod_to_u', o['M'], Ract.T)
            P('u_to_rod(rod_to_u(r))=r', C.resid_goal(zc, C.flat(o['back'] - r)))
        elif group == 'u_to_rod':
            Uq = C.quat_rot(f)
            P('rod_to_u(u_to_rod(U))=U', C.resid_goal(zc, C.flat(o['back'] - Uq)))
            # finite: denominators of the returned vector do not vanish on the domain
            dens = [lift(x).d for x in o['rod']]
            P('u_to_rod/finite', z3.And([zc.pz(d) != 0 for d in dens]))


# ---------------------------------------------------------------------------------------------
# u_to_euler: path exploration

REGIONS = ('lock0', 'lockpi', 'generic++', 'generic+-', 'generic-+', 'generic--')


EPS_ANGLE = Fraction(1, 10 ** 7)


def run_composition(u, desc, mod, modname, checks, tier):
    """(b) of the assume-guarantee decomposition: for ANY two triples of unit (cos,sin) pairs that differ by <= 1e-7 componentwise,
    the real euler_to_u matrices differ by <= 1e-6 entrywise"""
    import xfab
    names = ['c1', 's1', 'cP', 'sP', 'c2', 's2']
    f = Field(['pi'] + names + [n + 'p' for n in names], naux=2)
    f.positive('pi')
    ctx = Ctx(f)
    zc = ctx.zc
    v = f.var
    pre = smt.pi_enclosure(zc)
    eps = lift(EPS_ANGLE)
    for n in names:
        for x in (v(n), v(n + 'p')):
            pre += [zc.cmp0(x - 1, '<='), zc.cmp0(x + 1, '>=')]
        pre += [zc.cmp0(v(n + 'p') - v(n) - eps, '<='), zc.cmp0(v(n + 'p') - v(n) + eps, '>=')]
    xfab.CHECKS.activated = False
    try:
        with patched(mod, checks):
            M = mod.euler_to_u(Angle(v('c1'), v('s1')), Angle(v('cP'), v('sP')), Angle(v('c2'), v('s2')))
            Mp = mod.euler_to_u(Angle(v('c1p'), v('s1p')), Angle(v('cPp'), v('sPp')), Angle(v('c2p'), v('s2p')))
    finally:
        xfab.CHECKS.activated = True
    u.paths = 1
    tol6 = lift(Fraction(1, 10 ** 6))
    for i in range(3):
        for j in range(3):
            d = lift(Mp[i, j]) - lift(M[i, j])
            u.prove('C03/%s.u_to_euler/composition[%d,%d]' % (modname, i, j), pre,
                    z3.And(zc.cmp0(d - tol6, '<='), zc.cmp0(d + tol6, '>=')), replay=None,
                    detail='|cos/sin deviations| <= 1e-7  =>  |euler_to_u entry deviation| <= 1e-6', timeout=60, sample=(i + j == 0))


def run_composition_lock(u, desc, mod, modname, checks, tier, which):
    """(b') gimbal-lock branches: if PHI is within 1e-8 of 0 (pi) and (c',s') is within 1e-7 of cos/sin(phi1 +(-) phi2) then
    euler_to_u(phi1', PHI, 0) is within 1e-6 of euler_to_u(phi1, PHI, phi2)  (real euler_to_u on abstract pairs)"""
    import xfab
    names = ['c1', 's1', 'cP', 'sP', 'c2', 's2', 'cp', 'sp']
    f = Field(['pi'] + names, naux=2)
    f.positive('pi')
    for c, s in (('c1', 's1'), ('cP', 'sP'), ('c2', 's2')):
        f.angle(c, s)
    f.positive('sP', strict=False)
    ctx = Ctx(f)
    zc = ctx.zc
    v = f.var
    pre = ctx.base() + smt.pi_enclosure(zc)
    eps = lift(EPS_ANGLE)
    ctol = lift(cos_const(Fraction(1, 10 ** 8)))
    sgn = 1 if which == 'lock0' else -1
    pre.append(zc.cmp0(v('cP') - ctol, '>') if which == 'lock0' else zc.cmp0(v('cP') + ctol, '<'))
    cs = v('c1') * v('c2') - sgn * v('s1') * v('s2')
    ss = v('s1') * v('c2') + sgn * v('c1') * v('s2')
    for n in names:
        pre += [zc.cmp0(v(n) - 1, '<='), zc.cmp0(v(n) + 1, '>=')]
    pre += [zc.cmp0(v('cp') - cs - eps, '<='), zc.cmp0(v('cp') - cs + eps, '>='), zc.cmp0(v('sp') - ss - eps, '<='), zc.cmp0(v('sp') - ss + eps, '>=')]
    xfab.CHECKS.activated = False
    try:
        with patched(mod, checks):
            M = mod.euler_to_u(Angle(v('c1'), v('s1')), Angle(v('cP'), v('sP')), Angle(v('c2'), v('s2')))
            Mp = mod.euler_to_u(Angle(v('cp'), v('sp')), Angle(v('cP'), v('sP')), 0)
    finally:
        xfab.CHECKS.activated = True
    u.paths = 1
    tol6 = lift(Fraction(1, 10 ** 6))
    for i in range(3):
        for j in range(3):
            d = lift(Mp[i, j]) - lift(M[i, j])
            for sg, op in ((-1, '<='), (1, '>=')):
                u.prove('C03/%s.u_to_euler/composition-%s[%d,%d]%s' % (modname, which, i, j, op), pre, zc.cmp0(d + sg * tol6, op), replay=None,
                        detail='gimbal lock: phi1\' ~ phi1 %s phi2 within 1e-7  =>  entry deviation <= 1e-6' % ('+' if sgn > 0 else '-'), timeout=90, cvc5_timeout=90)


def run_u_to_euler(u, desc, mod, modname, checks, tier):
    import xfab
    region = desc['region']
    if region == 'composition':
        return run_composition(u, desc, mod, modname, checks, tier)
    if region.startswith('composition-lock'):
        return run_composition_lock(u, desc, mod, modname, checks, tier, region[12:])
    f = Field(['pi', 'c1', 's1', 'cP', 'sP', 'c2', 's2'], naux=8)
    f.positive('pi')
    for c, s in (('c1', 's1'), ('cP', 'sP'), ('c2', 's2')):
        f.angle(c, s)
    f.positive('sP', strict=False)
    ctx = Ctx(f, feas_timeout=3.0)
    zc = ctx.zc
    v = f.var
    ctol = lift(cos_const(Fraction(1, 10 ** 8)))
    ctx.pre = smt.pi_enclosure(zc)
    # the regions partition the input space (only to parallelise): PHI<1e-8 / pi-PHI<1e-8 / rest split by the signs of cos(phi1), cos(phi2)
    if region == 'lock0':
        ctx.pre.append(zc.cmp0(v('cP') - ctol, '>'))
    elif region == 'lockpi':
        ctx.pre.append(zc.cmp0(v('cP') + ctol, '<'))
    else:
        ctx.pre += [zc.cmp0(v('cP') - ctol, '<='), zc.cmp0(v('cP') + ctol, '>=')]
        ctx.pre.append(zc.cmp0(v('c1'), '>=' if region[7] == '+' else '<'))
        ctx.pre.append(zc.cmp0(v('c2'), '>=' if region[8] == '+' else '<'))
    U = C.mdot(C.Rz(v('c1'), v('s1')), C.Rx(v('cP'), v('sP')), C.Rz(v('c2'), v('s2')))
    for idx in np.ndindex(3, 3):
        U[idx] = lift(U[idx])
    xfab.CHECKS.activated = True
    tol6 = lift(Fraction(1, 10 ** 6))

    def body():
        with patched(mod, checks):
            e = mod.u_to_euler(U)
            U2 = mod.euler_to_u(*e)
            return {'e': list(e), 'U2': U2}
    lock = region.startswith('lock')
    budget_paths = (10 if lock else 400) if tier == 'quick' else 4000
    budget_s = (60 if lock else 150) if tier == 'quick' else 1500
    if lock and tier == 'quick':
        ctx.feas_timeout = 1.5
    leaves, exh = ctx.explore(body, max_paths=budget_paths, max_seconds=budget_s, catch=(ValueError, AssertionError, ZeroDivisionError, TypeError))
    u.exhaustive = exh
    u.decisions = ctx.decisions
    qt = int(__import__("os").environ.get("C03_QT", "0")) or ((4 if region.startswith('lock') else 15) if tier == "quick" else 120)
    for li, leaf in enumerate(leaves):
        u.paths += 1
        tag = '/%s/p%s' % (region, ''.join('T' if d else 'F' for d in leaf['trace']))
        pre = ctx.base() + leaf['pc']
        rp = mk_replay(f, modname, 'u_to_euler')
        if leaf['exception'] is not None:
            # an exception on valid input: the path must be infeasible
            u.prove('C03/%s.u_to_euler/no-exception%s' % (modname, tag), pre, z3.BoolVal(False), replay=rp,
                    detail='raised %r' % (leaf['exception'],), timeout=qt)
            continue
        o = leaf['result']
        e, U2 = o['e'], o['U2']
        # (i) ranges from the window model
        ok_rng = True
        want = [(0, 2), (0, 1), (0, 2)]
        for a, (lo, hi) in zip(e, want):
            if isinstance(a, Angle):
                if not (a.is_rad() and a.lo is not None and a.lo >= lo and a.hi <= hi):
                    ok_rng = False
            elif isinstance(a, Q):
                # constant multiple of pi
                from vengine.angle import pi_power
                rk = pi_power(a)
                if not (rk is not None and (rk[0] == 0 or rk[1] == 1) and lo <= rk[0] <= hi):
                    ok_rng = False
            elif not (a == 0):
                ok_rng = False
        u.prove('C03/%s.u_to_euler/range%s' % (modname, tag), pre, z3.BoolVal(ok_rng), replay=rp,
                detail='angles within [0,2pi]x[0,pi]x[0,2pi]: %s' % [(str(a.lo), str(a.hi)) if isinstance(a, Angle) else str(a)[:10] for a in e], timeout=qt)
        # (ii) rebuild within 1e-6
        resid = [lift(U2[i, j]) - U[i, j] for i in range(3) for j in range(3)]
        nz = [(k, r) for k, r in enumerate(resid) if not r.iszero()]
        zeroing = 'zeroing' if nz else 'exact'
        if not nz:
            u.prove('C03/%s.u_to_euler/rebuild[exact-path]%s' % (modname, tag), pre, z3.BoolVal(True), replay=rp,
                    detail='all nine residual entries are the zero polynomial on path %s' % tag, timeout=qt, sample=(li < 2))
        elif region.startswith('generic'):
            # assume-guarantee: (a) each returned angle reproduces the (cos,sin) of the generating angle within 1e-7 on this path;
            # (b) unit `composition`: such deviations move no matrix entry by more than 1e-6
            eps = lift(EPS_ANGLE)
            from vengine.symnp import _cos1, _sin1
            goals = []
            for k, (cn, sn) in enumerate((('c1', 's1'), ('cP', 'sP'), ('c2', 's2'))):
                a = e[k]
                cc, ss = (a.cs() if isinstance(a, Angle) else (_cos1(a), _sin1(a)))
                for nm, val, ref in (('cos', cc, v(cn)), ('sin', ss, v(sn))):
                    d = lift(val) - ref
                    if d.iszero():
                        continue
                    goals.append((z3.And(zc.cmp0(d - eps, '<='), zc.cmp0(d + eps, '>=')), '%s of returned angle %d within 1e-7 of the generating angle on path %s' % (nm, k, tag)))
            # (a) is sufficient, not necessary: if it cannot be established the 1e-6 bound itself is asked entry by entry on this path
            sufficient = True
            for g_, det_ in goals:
                st_, _, _ = smt.solve(pre + [z3.Not(g_)], timeout_s=qt, cvc5_timeout_s=qt, want_model=False)
                if st_ != 'unsat':
                    sufficient = False
                    break
            if sufficient:
                for g_, det_ in goals:
                    u.prove('C03/%s.u_to_euler/rebuild[zeroing-path]' % modname, pre, g_, replay=rp, detail=det_, timeout=qt, cvc5_timeout=qt)
            else:
                # first the whole bound in one query (a violating input, if any, is usually found in under a second) ...
                allgoal = z3.And([z3.And(zc.cmp0(r - tol6, '<='), zc.cmp0(r + tol6, '>=')) for k, r in nz])
                st_all = u.prove('C03/%s.u_to_euler/rebuild[zeroing-path]/direct-all' % modname, pre, allgoal, replay=rp,
                                 detail='|euler_to_u(u_to_euler(U)) - U| <= 1e-6 (all entries) on path %s' % tag, timeout=10, cvc5_timeout=10)
                if st_all in ('discharged', 'violated'):
                    continue
                u.results.pop()          # inconclusive as a whole: ... then entry by entry
                for k, r in nz:
                    for sg, op in ((-1, '<='), (1, '>=')):
                        u.prove('C03/%s.u_to_euler/rebuild[zeroing-path]/direct' % modname, pre, zc.cmp0(r + sg * tol6, op), replay=rp,
                                detail='entry %d,%d of euler_to_u(u_to_euler(U)) - U %s %s1e-6 on path %s' % (k // 3, k % 3, op, '-' if sg > 0 else '', tag),
                                timeout=qt, cvc5_timeout=qt)
        else:
            # gimbal-lock branches: (a) phi2' == 0, PHI' == PHI and phi1' reproduces cos/sin(phi1 +- phi2) within 1e-7 on this path;
            # (b') unit `composition-lock*`
            eps = lift(EPS_ANGLE)
            sgn = 1 if region == 'lock0' else -1
            cs = v('c1') * v('c2') - sgn * v('s1') * v('s2')
            ss = v('s1') * v('c2') + sgn * v('c1') * v('s2')
            from vengine.symnp import _cos1, _sin1
            a0 = e[0]
            cc, sn_ = (a0.cs() if isinstance(a0, Angle) else (_cos1(a0), _sin1(a0)))
            okform = (not isinstance(e[2], (Angle, Q)) and e[2] == 0) and isinstance(e[1], Angle) and (e[1].c - v('cP')).iszero() and (e[1].s - v('sP')).iszero()
            if not okform:
                # not the (phi1', PHI, 0) form the decomposition assumes: ask the 1e-6 bound itself entry by entry
                for k, r in nz:
                    for sg, op in ((-1, '<='), (1, '>=')):
                        u.prove('C03/%s.u_to_euler/rebuild[lock-path]/direct' % modname, pre, zc.cmp0(r + sg * tol6, op), replay=rp,
                                detail='entry %d,%d within 1e-6 on path %s' % (k // 3, k % 3, tag), timeout=qt, cvc5_timeout=qt)
                continue
            u.prove('C03/%s.u_to_euler/rebuild[lock-path]/form%s' % (modname, tag), pre, z3.BoolVal(True), replay=rp,
                    detail='lock branch returns (phi1\', PHI, 0)', timeout=qt)
            for nm, val, ref in (('cos', cc, cs), ('sin', sn_, ss)):
                d = lift(val) - ref
                for sg, op in ((-1, '<='), (1, '>=')):
                    u.prove('C03/%s.u_to_euler/rebuild[lock-path]' % modname, pre, zc.cmp0(d + sg * eps, op), replay=rp,
                            detail='%s of returned phi1 within 1e-7 of %s(phi1%sphi2) (%s) on path %s' % (nm, nm, '+' if sgn > 0 else '-', op, tag),
                            timeout=qt, cvc5_timeout=qt)
        if li < 3:
            model = u.reach(desc['name'] + tag, pre, soft=True, timeout=10)
            if model is not None and model is not core.INFEASIBLE:
                env = C.env_from_model(f, model)
                try:
                    Uf = C.evalarr(U, env)
                    ef = mod.u_to_euler(Uf)
                    es = [C.evalq(a, env) if not isinstance(a, (int, float)) else float(a) for a in e]
                    if C.close(np.mod(ef, 2 * math.pi), np.mod(es, 2 * math.pi), 1e-6, 1e-6):
                        u.validated += 1
                    else:
                        u.notes.append('witness mismatch on %s: real %s symbolic %s' % (tag, ef, es))
                except Exception as ex:
                    u.notes.append('witness replay failed on %s: %r' % (tag, ex))


# ---------------------------------------------------------------------------------------------

def angles_from_env(env, pairs):
    return [math.atan2(env[s], env[c]) for c, s in pairs]


def validate(mod, group, o, env):
    try:
        if group == 'euler_to_u':
            a = angles_from_env(env, (('c1', 's1'), ('cP', 'sP'), ('c2', 's2')))
            import xfab
            xfab.CHECKS.activated = False
            try:
                M = mod.euler_to_u(*a)
            finally:
                xfab.CHECKS.activated = True
            return C.close(C.evalarr(o['M'], env), M, 1e-8, 1e-9)
        if group == 'omega_mats':
            a = angles_from_env(env, (('co', 'so'), ('cx', 'sx'), ('cy', 'sy')))
            return C.close(C.evalarr(o['Og'], env), mod.form_omega_mat_general(*a), 1e-8, 1e-9) and C.close(C.evalarr(o['Om'], env), mod.form_omega_mat(a[0]), 1e-8, 1e-9)
        if group == 'quart_to_omega':
            a = angles_from_env(env, (('ch', 'sh'), ('cx', 'sx'), ('cy', 'sy')))
            return C.close(C.evalarr(o['M'], env), mod.quart_to_omega(math.degrees(2 * a[0]), a[1], a[2]), 1e-8, 1e-9)
        if group == 'detect_tilt':
            a = angles_from_env(env, (('cx', 'sx'), ('cy', 'sy'), ('cz', 'sz')))
            return C.close(C.evalarr(o['M'], env), mod.detect_tilt(*a), 1e-8, 1e-9)
        if group == 'rod':
            r = [env['r1'], env['r2'], env['r3']]
            return C.close(C.evalarr(o['M'], env), mod.rod_to_u(r), 1e-8, 1e-9)
        if group == 'u_to_rod':
            U = rot_from_quat(quat_floats(env))
            return C.close(C.evalarr(o['rod'], env), mod.u_to_rod(U), 1e-6, 1e-8)
    except Exception:
        return False
    return False


def _Rx(t):
    c, s = math.cos(t), math.sin(t)
    return np.array([[1, 0, 0], [0, c, -s], [0, s, c]])


def _Ry(t):
    c, s = math.cos(t), math.sin(t)
    return np.array([[c, 0, s], [0, 1, 0], [-s, 0, c]])


def _Rz(t):
    c, s = math.cos(t), math.sin(t)
    return np.array([[c, -s, 0], [s, c, 0], [0, 0, 1]])


def numeric(modname, group, a, tol=1e-6):
    """a: list of input numbers (angles in rad / rodrigues vector / quaternion)"""
    mod = importlib.import_module('xfab.' + modname)
    import xfab
    bad = []

    def chk(name, x, y, t=tol):
        x = np.asarray(x, float)
        y = np.asarray(y, float)
        if x.shape != y.shape or not np.all(np.isfinite(x)) or np.max(np.abs(x - y)) > t * max(1.0, float(np.max(np.abs(y)))):
            bad.append((name, 'got %s expected %s' % (np.round(x, 8).tolist(), np.round(y, 8).tolist())))

    def rot(name, M, expected):
        chk(name + ' orthonormal', M.T @ M, np.eye(3))
        chk(name + ' det', np.linalg.det(M), 1.0)
        chk(name + ' product', M, expected)
    try:
        if group == 'euler_to_u':
            xfab.CHECKS.activated = False
            try:
                rot('euler_to_u', mod.euler_to_u(*a), _Rz(a[0]) @ _Rx(a[1]) @ _Rz(a[2]))
            finally:
                xfab.CHECKS.activated = True
            b = [x % (2 * math.pi) for x in a]
            rot('euler_to_u[checks on]', mod.euler_to_u(*b), _Rz(b[0]) @ _Rx(b[1]) @ _Rz(b[2]))
        elif group == 'omega_mats':
            rot('form_omega_mat', mod.form_omega_mat(a[0]), _Rz(a[0]))
            rot('form_omega_mat_general', mod.form_omega_mat_general(*a), _Rx(a[1]) @ _Ry(a[2]) @ _Rz(a[0]))
        elif group == 'quart_to_omega':
            Pm = _Rx(a[1]) @ _Ry(a[2])
            rot('quart_to_omega', mod.quart_to_omega(math.degrees(2 * a[0]), a[1], a[2]), Pm @ _Rz(2 * a[0]) @ Pm.T)
        elif group == 'detect_tilt':
            rot('detect_tilt', mod.detect_tilt(*a), _Rx(a[0]) @ _Ry(a[1]) @ _Rz(a[2]))
        elif group == 'rod':
            r = np.asarray(a, float)
            rho = np.linalg.norm(r)
            if rho > 0:
                th = 2 * math.atan(rho)
                nrm = r / rho
                K = np.array([[0, -nrm[2], nrm[1]], [nrm[2], 0, -nrm[0]], [-nrm[1], nrm[0], 0]])
                Ract = np.eye(3) + math.sin(th) * K + (1 - math.cos(th)) * K @ K
            else:
                Ract = np.eye(3)
            rot('rod_to_u', mod.rod_to_u(r), Ract.T)
            chk('u_to_rod(rod_to_u)', mod.u_to_rod(mod.rod_to_u(r)), r, 1e-6 * max(1.0, rho * rho))
        elif group == 'u_to_rod':
            U = rot_from_quat(np.asarray(a) / np.linalg.norm(a))
            rr = mod.u_to_rod(U)
            if not np.all(np.isfinite(rr)):
                bad.append(('u_to_rod finite', str(rr)))
            chk('rod_to_u(u_to_rod)', mod.rod_to_u(rr), U)
        elif group == 'u_to_euler':
            U = _Rz(a[0]) @ _Rx(a[1]) @ _Rz(a[2])
            e = mod.u_to_euler(U)
            if not (0 <= e[0] <= 2 * math.pi and 0 <= e[1] <= math.pi and 0 <= e[2] <= 2 * math.pi):
                bad.append(('range', str(e)))
            chk('rebuild', mod.euler_to_u(*e), U)
    except Exception as e:
        bad.append(('exception', repr(e)))
    return bad


PAIRS = {'euler_to_u': (('c1', 's1'), ('cP', 'sP'), ('c2', 's2')), 'u_to_euler': (('c1', 's1'), ('cP', 'sP'), ('c2', 's2')),
         'omega_mats': (('co', 'so'), ('cx', 'sx'), ('cy', 'sy')), 'quart_to_omega': (('ch', 'sh'), ('cx', 'sx'), ('cy', 'sy')),
         'detect_tilt': (('cx', 'sx'), ('cy', 'sy'), ('cz', 'sz'))}


def mk_replay(f, modname, group):
    def replay(model):
        env = C.env_from_model(f, model)
        if group in PAIRS:
            # use the model's exact (c,s) -- near gimbal lock the information is in the tiny sine
            a = []
            for c, s in PAIRS[group]:
                cv, sv = float(model.get(c, env[c])), float(model.get(s, env[s]))
                a.append(math.atan2(sv if abs(sv) > 0 else env[s], cv))
        elif group == 'rod':
            a = [env['r1'], env['r2'], env['r3']]
        else:
            a = quat_floats(env).tolist()
        rec = {'module': modname, 'group': group, 'a': a}
        bad = numeric(modname, group, a)
        if bad:
            return True, rec, '; '.join('%s: %s' % b for b in bad[:2])
        return False, rec, 'property holds numerically at the model %s' % (a,)
    return replay


def replay(rec):
    r = rec['replay']
    bad = numeric(r['module'], r['group'], r['a'])
    return bool(bad), '; '.join('%s: %s' % b for b in bad) or 'property holds on the recorded input'
