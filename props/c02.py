"""C02 — U, B and UBI convert into each other without loss (both modules, CHECKS on)."""
import importlib
import math
from fractions import Fraction

import numpy as np
import z3

from vengine.field import Field, Q, lift, EngineError
from vengine.angle import Angle
from vengine.explore import Ctx
from vengine import smt, core
from vengine.symnp import patched, SYMNP
from . import common as C

FUNCS = ['u_to_ubi', 'ubi_to_u', 'ubi_to_cell', 'ubi_to_u_b', 'ub_to_u_b', 'ubi_to_rod', 'u_to_rod', 'form_b_mat', 'a_to_cell']
META = {
    'explanation': 'History group: u_to_ubi/ubi_to_u on a cell, then on the cell with a.(1+dl), |dl|<=1e-4 symbolic - the second result must be that of the second cell (numpy.allclose with symbolic or angle-valued references is a formula). '
                   'Real u_to_ubi/ubi_to_u/ubi_to_cell/ubi_to_rod/ubi_to_u_b/ub_to_u_b executed on U=R(q) (unit quaternion, all of SO(3)), '
                   'a symbolic cell and real hkl, input checks switched on.  ub_to_u_b: UB := U0.B0 with B0 an arbitrary upper-triangular matrix '
                   'with positive diagonal (any UB with det>0 by QR existence), numpy.linalg.qr replaced by its contract '
                   '(Q=U0.D, R=D.B0, D=diag(+-1) symbolic); the 8 sign patterns are explored as paths of the code\'s own `if B[i,i] < 0`.',
    'functions': ['xfab.%s.%s' % (m, f) for m in ('tools', 'laue') for f in FUNCS] + ['xfab.checks._check_rotation_matrix', 'xfab.checks._check_ubi_matrix'],
    'bounds': {'U': 'all proper rotations (unit quaternions)', 'cell': 'as C01 (Gram >= 0.02)', 'hkl': 'all real hkl',
               'ubi_to_rod': '1 + trace(U) >= 1e-12 (rotation angle not within 1e-6 of 180 deg)',
               'UB': 'U0.B0 with B0 upper triangular, diagonal > 0 (every matrix with det > 0 has exactly one such factorisation)'},
    'outside_claim': ['floating-point conditioning (condition number limit of the property is irrelevant in exact arithmetic)',
                      'LAPACK\'s actual sign choice in qr (over-approximated by all 8 sign patterns)'],
    'stubs': ['numpy.linalg.qr -> contract stub (Q=U0.D, R=D.B0, D symbolic signs)', 'numpy.allclose -> documented tolerance formula',
              'linalg.inv/det closed forms', 'arccos/sqrt models'],
    'assumptions': ['existence and uniqueness (up to signs) of the QR factorisation of a nonsingular matrix',
                    'real-arithmetic model; pi enclosure'],
}


def units(tier):
    us = []
    for m in ('tools', 'laue'):
        for g in ('ubi', 'ubi_cell_u', 'ubi_rod', 'ubi_to_u_b', 'ub_to_u_b', 'ubi_history'):
            us.append({'name': '%s/%s' % (m, g), 'module': m, 'group': g})
    return us


QN = ['qw', 'qx', 'qy', 'qz']


def setup(extra=(), naux=10, cell=True):
    names = (C.CELL_NAMES if cell else []) + ['pi'] + QN + list(extra)
    f = Field(names, naux=naux)
    if cell:
        C.cell_setup(f)
    f.positive('pi')
    C.quat_setup(f)
    ctx = Ctx(f)
    ctx.pre = (C.cell_pre(ctx.zc, f) if cell else []) + smt.pi_enclosure(ctx.zc)
    return f, ctx


class QRStub:
    """numpy.linalg.qr contract: for the announced factorisation UB = U0.B0 return (U0.D, D.B0)"""

    def __init__(self, f, U0, B0, dnames):
        self.f, self.U0, self.B0, self.d = f, U0, B0, [f.var(n) for n in dnames]
        self.calls = 0

    def __call__(self, UB):
        self.calls += 1
        UB = np.asarray(UB, dtype=object)
        ref = np.dot(self.U0, self.B0)
        for i in range(3):
            for j in range(3):
                if not (lift(UB[i, j]) - lift(ref[i, j])).iszero():
                    raise EngineError('qr stub: argument is not the announced product U0.B0 at (%d,%d)' % (i, j))
        D = C.oa([[self.d[0], 0, 0], [0, self.d[1], 0], [0, 0, self.d[2]]])
        return np.dot(self.U0, D), np.dot(D, self.B0)


def run_unit(u, desc, tier, seed):
    modname, group = desc['module'], desc['group']
    mod = importlib.import_module('xfab.' + modname)
    import xfab
    from xfab import checks
    xfab.CHECKS.activated = True
    kap = None
    if group == 'ub_to_u_b':
        return run_qr(u, desc, mod, modname, checks)
    extra = ['h', 'k', 'l'] if group == 'ubi' else []
    if group == 'ubi_to_u_b':
        extra = ['d1', 'd2', 'd3']
    if group == 'ubi_history':
        extra = ['dl']
    f, ctx = setup(extra)
    zc = ctx.zc
    cell = C.cell_of(f)
    U = C.quat_rot(f)
    kap = 2 * f.var('pi') if modname == 'tools' else lift(1)
    pre0 = ctx.base()
    if group == 'ubi_rod':
        w = f.var('qw')
        ctx.pre = ctx.pre + [zc.cmp0(4 * w * w - lift(Fraction(1, 10 ** 12)), '>=')]
    hint = dict(C.CELL_HINT)
    hint.update({'qx': '1/3', 'qy': '-1/5', 'qz': '2/7'})
    outs = {}
    if group == 'ubi_to_u_b':
        for d in ('d1', 'd2', 'd3'):
            f.relation(d, f.R.one)
    cellB = None
    if group == 'ubi_history':
        # history independence: the same conversions were called just before with a cell whose first length differs by the
        # factor (1+dl), |dl| <= 1e-4 (a refinement step); the second result must be that of the second cell
        dl = f.var('dl')
        ctx.pre = ctx.pre + [zc.cmp0(dl - lift(Fraction(1, 10 ** 4)), '<='), zc.cmp0(dl + lift(Fraction(1, 10 ** 4)), '>=')]
        cellB = [cell[0] * (1 + dl)] + list(cell[1:])
        hint['dl'] = '1/2000000'

    def body():
        with patched(mod, checks):
            if group == 'ubi':
                UBI = mod.u_to_ubi(U, cell)
                B = mod.form_b_mat(cell)
                return {'UBI': UBI, 'B': B}
            if group == 'ubi_cell_u':
                UBI = mod.u_to_ubi(U, cell)
                return {'UBI': UBI, 'cell2': mod.ubi_to_cell(UBI), 'U2': mod.ubi_to_u(UBI)}
            if group == 'ubi_rod':
                UBI = mod.u_to_ubi(U, cell)
                return {'UBI': UBI, 'rod1': mod.ubi_to_rod(UBI), 'rod2': mod.u_to_rod(U)}
            if group == 'ubi_history':
                UBI1 = mod.u_to_ubi(U, cell)
                U1 = mod.ubi_to_u(UBI1)
                UBI = mod.u_to_ubi(U, cellB)
                return {'UBI': UBI, 'cell2': mod.ubi_to_cell(UBI), 'U2': mod.ubi_to_u(UBI), 'UBI1': UBI1}
            if group == 'ubi_to_u_b':
                UBI = mod.u_to_ubi(U, cell)
                B = mod.form_b_mat(cell)
                stub = QRStub(f, U, B, ('d1', 'd2', 'd3'))
                old = SYMNP.linalg.qr
                SYMNP.linalg.qr = stub
                try:
                    U2, B2 = mod.ubi_to_u_b(UBI)
                finally:
                    SYMNP.linalg.qr = old
                return {'UBI': UBI, 'U2': U2, 'B2': B2, 'B': B}

    leaves, exh = ctx.explore(body, max_paths=128)
    u.exhaustive = exh
    u.decisions = ctx.decisions
    for li, leaf in enumerate(leaves):
        u.paths += 1
        pre = ctx.base() + leaf['pc']
        tag = '' if len(leaves) == 1 else '/path%d' % li
        if leaf['exception'] is not None:
            # an exception on a feasible path for valid inputs violates the property (valid input rejected)
            u.prove('C02/%s.%s%s/no-exception' % (modname, group, tag), pre, z3.BoolVal(False),
                    replay=mk_replay(f, modname, group), detail='raised %r' % (leaf['exception'],))
            continue
        outs = leaf['result']
        model = u.reach(desc['name'] + tag, pre, hints=C.hints_from(zc, hint), soft=(li > 0))
        if model is core.INFEASIBLE:
            u.paths -= 1
            continue
        if model is not None:
            env = C.env_from_model(f, model)
            ok = validate(mod, modname, group, outs, env)
            if ok:
                u.validated += 1
            else:
                u.add(desc['name'] + tag + '/translator', 'error', 'symbolic outputs disagree with real function at path witness')

        def P(name, goal, **kw):
            u.prove('C02/%s.%s%s' % (modname, name, tag), pre, goal, replay=mk_replay(f, modname, group), detail=name, sample=True, **kw)
        if group == 'ubi':
            UBI, B = outs['UBI'], outs['B']
            hkl = C.oa([f.var('h'), f.var('k'), f.var('l')])
            g = np.dot(U, np.dot(B, hkl))
            back = np.dot(UBI, g)
            P('u_to_ubi/UBI.(U.B.h)=kappa.h', C.resid_goal(zc, C.flat(back - kap * hkl)))
            # rows of UBI are the real-space lattice vectors: UBI.UBI^T = direct metric G
            P('u_to_ubi/UBI.UBIt=G', C.resid_goal(zc, C.flat(np.dot(UBI, UBI.T) - C.metric(f))))
        elif group == 'ubi_cell_u':
            c2, U2 = outs['cell2'], outs['U2']
            P('ubi_to_cell/lengths', C.resid_goal(zc, [c2[i] - cell[i] for i in range(3)]))
            for i in (3, 4, 5):
                if not (isinstance(c2[i], Angle) and c2[i].is_deg() and c2[i].lo >= 0 and c2[i].hi <= 1):
                    u.add('C02/%s.ubi_to_cell/angle%d-form' % (modname, i), 'error', 'unexpected angle form %r' % (c2[i],))
                else:
                    P('ubi_to_cell/angle%d' % i, C.resid_goal(zc, [c2[i].c - cell[i].c]))
            P('ubi_to_u/U', C.resid_goal(zc, C.flat(U2 - U)))
        elif group == 'ubi_history':
            c2, U2 = outs['cell2'], outs['U2']
            P('history/ubi_to_cell(second cell)/lengths', C.resid_goal(zc, [c2[i] - cellB[i] for i in range(3)]))
            for i in (3, 4, 5):
                if isinstance(c2[i], Angle):
                    P('history/ubi_to_cell(second cell)/angle%d' % i, C.resid_goal(zc, [c2[i].c - cell[i].c]))
            P('history/ubi_to_u(second cell)/U', C.resid_goal(zc, C.flat(U2 - U)))
            P('history/UBI.UBIt=G(second cell)/00', C.resid_goal(zc, [np.dot(outs['UBI'], outs['UBI'].T)[0, 0] - cellB[0] * cellB[0]]))
        elif group == 'ubi_rod':
            P('ubi_to_rod=u_to_rod', C.resid_goal(zc, C.flat(outs['rod1'] - outs['rod2'])))
        elif group == 'ubi_to_u_b':
            P('ubi_to_u_b/U', C.resid_goal(zc, C.flat(outs['U2'] - U)))
            P('ubi_to_u_b/B', C.resid_goal(zc, C.flat(outs['B2'] - outs['B'])))
        for n, (kind, formula, pc) in enumerate(ctx.domain[:6]):
            pass
    ctx.domain = []


def run_qr(u, desc, mod, modname, checks):
    names = ['pi'] + QN + ['b11', 'b12', 'b13', 'b22', 'b23', 'b33', 'd1', 'd2', 'd3']
    f = Field(names, naux=4)
    C.quat_setup(f)
    f.positive('pi', 'b11', 'b22', 'b33')
    for d in ('d1', 'd2', 'd3'):
        f.relation(d, f.R.one)
    ctx = Ctx(f)
    ctx.pre = smt.pi_enclosure(ctx.zc)
    zc = ctx.zc
    v = f.var
    U0 = C.quat_rot(f)
    B0 = C.oa([[v('b11'), v('b12'), v('b13')], [0, v('b22'), v('b23')], [0, 0, v('b33')]])
    UB = np.dot(U0, B0)
    stub = QRStub(f, U0, B0, ('d1', 'd2', 'd3'))

    def body():
        old = SYMNP.linalg.qr
        SYMNP.linalg.qr = stub
        try:
            with patched(mod, checks):
                return mod.ub_to_u_b(UB)
        finally:
            SYMNP.linalg.qr = old
    leaves, exh = ctx.explore(body, max_paths=64)
    u.exhaustive = exh
    u.decisions = ctx.decisions
    if len(leaves) != 8:
        u.notes.append('ub_to_u_b explored %d sign paths (expected 8)' % len(leaves))
    for li, leaf in enumerate(leaves):
        u.paths += 1
        pre = ctx.base() + leaf['pc']
        tag = '/path%d' % li
        rp = mk_replay(f, modname, 'ub_to_u_b')
        if leaf['exception'] is not None:
            u.prove('C02/%s.ub_to_u_b%s/no-exception' % (modname, tag), pre, z3.BoolVal(False), replay=rp,
                    detail='raised %r' % (leaf['exception'],))
            continue
        U2, B2 = leaf['result']
        model = u.reach(desc['name'] + tag, pre, soft=(li > 0))
        if model is core.INFEASIBLE:
            u.paths -= 1
            continue
        if model is not None:
            env = C.env_from_model(f, model)
            ub = C.evalarr(UB, env)
            Ur, Br = mod.ub_to_u_b(ub)
            if C.close(Ur, C.evalarr(U0, env), 1e-7, 1e-8) and C.close(Br, C.evalarr(B0, env), 1e-7, 1e-8):
                u.validated += 1
            else:
                u.add(desc['name'] + tag + '/translator', 'error', 'real ub_to_u_b differs from (U0,B0) at the witness')
        u.prove('C02/%s.ub_to_u_b%s/U=U0' % (modname, tag), pre, C.resid_goal(zc, C.flat(U2 - U0)), replay=rp, detail='U part', sample=True)
        u.prove('C02/%s.ub_to_u_b%s/B=B0' % (modname, tag), pre, C.resid_goal(zc, C.flat(B2 - B0)), replay=rp, detail='B part')
        # consequences stated by the property
        u.prove('C02/%s.ub_to_u_b%s/UtU=I' % (modname, tag), pre, C.resid_goal(zc, C.flat(np.dot(U2.T, U2) - C.eye3())), replay=rp, detail='orthonormal')
        u.prove('C02/%s.ub_to_u_b%s/detU=1' % (modname, tag), pre, C.resid_goal(zc, [SYMNP.linalg.det(U2) - 1]), replay=rp, detail='det')
        u.prove('C02/%s.ub_to_u_b%s/B-upper-posdiag' % (modname, tag), pre,
                z3.And(C.resid_goal(zc, [B2[1, 0], B2[2, 0], B2[2, 1]]), *[zc.cmp0(B2[i, i], '>') for i in range(3)]), replay=rp, detail='B shape')
        u.prove('C02/%s.ub_to_u_b%s/U.B=UB' % (modname, tag), pre, C.resid_goal(zc, C.flat(np.dot(U2, B2) - UB)), replay=rp, detail='product')


def quat_floats(env):
    q = np.array([env['qw'], env['qx'], env['qy'], env['qz']])
    return q / np.linalg.norm(q)


def rot_from_quat(q):
    w, x, y, z = q
    return np.array([[1 - 2 * (y * y + z * z), 2 * (x * y - z * w), 2 * (x * z + y * w)],
                     [2 * (x * y + z * w), 1 - 2 * (x * x + z * z), 2 * (y * z - x * w)],
                     [2 * (x * z - y * w), 2 * (y * z + x * w), 1 - 2 * (x * x + y * y)]])


def validate(mod, modname, group, outs, env):
    cellf = C.cell_floats(env)
    U = rot_from_quat(quat_floats(env))
    try:
        if group == 'ubi_history':
            mod.ubi_to_u(mod.u_to_ubi(U, cellf))
            cellf = [cellf[0] * (1 + env.get('dl', 0.0))] + list(cellf[1:])
        UBI = mod.u_to_ubi(U, cellf)
        if not C.close(C.evalarr(outs['UBI'], env), UBI, 1e-7, 1e-8):
            return False
        if group == 'ubi_history':
            return (C.close([C.evalq(x, env) for x in outs['cell2']], mod.ubi_to_cell(UBI), 1e-7, 1e-7)
                    and C.close(C.evalarr(outs['U2'], env), mod.ubi_to_u(UBI), 1e-7, 1e-8))
        if group == 'ubi_cell_u':
            return (C.close([C.evalq(x, env) for x in outs['cell2']], mod.ubi_to_cell(UBI), 1e-7, 1e-7)
                    and C.close(C.evalarr(outs['U2'], env), mod.ubi_to_u(UBI), 1e-7, 1e-8))
        if group == 'ubi_rod':
            return C.close(C.evalarr(outs['rod1'], env), mod.ubi_to_rod(UBI), 1e-6, 1e-7)
        if group == 'ubi_to_u_b':
            U2, B2 = mod.ubi_to_u_b(UBI)
            return C.close(C.evalarr(outs['U2'], env), U2, 1e-7, 1e-8) and C.close(C.evalarr(outs['B2'], env), B2, 1e-7, 1e-8)
        return True
    except Exception:
        return False


def numeric(modname, group, cell, q, hkl, ubparts=None, tol=1e-6, Umat=None, dl=0.0):
    mod = importlib.import_module('xfab.' + modname)
    import xfab
    xfab.CHECKS.activated = True
    kap = 2 * math.pi if modname == 'tools' else 1.0
    bad = []

    def chk(name, x, y):
        x = np.asarray(x, float)
        y = np.asarray(y, float)
        sc = max(1.0, float(np.max(np.abs(y))))
        if x.shape != y.shape or not np.all(np.isfinite(x)) or np.max(np.abs(x - y)) > tol * sc:
            bad.append((name, 'got %s expected %s' % (np.round(x, 7).tolist(), np.round(y, 7).tolist())))
    try:
        if group == 'ub_to_u_b':
            U0, B0 = np.array(ubparts[0]), np.array(ubparts[1])
            U2, B2 = mod.ub_to_u_b(U0 @ B0)
            chk('U', U2, U0)
            chk('B', B2, B0)
            return bad
        U = np.array(Umat, float) if Umat is not None else rot_from_quat(np.asarray(q) / np.linalg.norm(q))
        if group == 'ubi_history':
            mod.ubi_to_u(mod.u_to_ubi(U, cell))          # the preceding call of the history
            cellB = [cell[0] * (1 + dl)] + list(cell[1:])
            UBI = mod.u_to_ubi(U, cellB)
            tol = 1e-9
            chk('history: ubi_to_cell after a call with a neighbouring cell', mod.ubi_to_cell(UBI), cellB)
            chk('history: ubi_to_u after a call with a neighbouring cell', mod.ubi_to_u(UBI), U)
            return bad
        UBI = mod.u_to_ubi(U, cell)
        B = mod.form_b_mat(cell)
        if group == 'ubi':
            h = np.asarray(hkl, float)
            chk('UBI.(UBh)=kappa h', UBI @ (U @ B @ h), kap * h)
            a, b, c = cell[:3]
            ca, cb, cg = [math.cos(math.radians(x)) for x in cell[3:]]
            G = np.array([[a * a, a * b * cg, a * c * cb], [a * b * cg, b * b, b * c * ca], [a * c * cb, b * c * ca, c * c]])
            chk('UBI.UBIt=G', UBI @ UBI.T, G)
        elif group == 'ubi_cell_u':
            chk('ubi_to_cell', mod.ubi_to_cell(UBI), cell)
            chk('ubi_to_u', mod.ubi_to_u(UBI), U)
        elif group == 'ubi_rod':
            chk('ubi_to_rod', mod.ubi_to_rod(UBI), mod.u_to_rod(U))
        elif group == 'ubi_to_u_b':
            U2, B2 = mod.ubi_to_u_b(UBI)
            chk('ubi_to_u_b U', U2, U)
            chk('ubi_to_u_b B', B2, B)
    except Exception as e:
        bad.append(('exception', repr(e)))
    return bad


def rotation_bank():
    """structured proper rotations on which LAPACK's qr realises other sign patterns than on generic input"""
    out = []
    for t in (0.0, 0.3, 1.2, 2.5, math.pi / 2, math.pi, -0.7):
        c, s = math.cos(t), math.sin(t)
        out += [np.array([[1, 0, 0], [0, c, -s], [0, s, c]]), np.array([[c, 0, s], [0, 1, 0], [-s, 0, c]]),
                np.array([[c, -s, 0], [s, c, 0], [0, 0, 1]])]
    import itertools
    for perm in itertools.permutations(range(3)):
        for sg in itertools.product((1, -1), repeat=3):
            M = np.zeros((3, 3))
            for i in range(3):
                M[i, perm[i]] = sg[i]
            if abs(np.linalg.det(M) - 1) < 1e-9:
                out.append(M)
    return out


def mk_replay(f, modname, group):
    def replay(model):
        env = C.env_from_model(f, model)
        if group == 'ub_to_u_b':
            U0 = rot_from_quat(quat_floats(env))
            B0 = np.array([[env['b11'], env['b12'], env['b13']], [0, env['b22'], env['b23']], [0, 0, env['b33']]])
            # the qr stub over-approximates LAPACK's sign choice: look for a concrete UB on which the real qr realises the failing pattern
            for Uc in [U0] + rotation_bank():
                rec = {'module': modname, 'group': group, 'ubparts': [Uc.tolist(), B0.tolist()], 'cell': None, 'q': None, 'hkl': None}
                bad = numeric(modname, group, None, None, None, rec['ubparts'])
                if bad:
                    return True, rec, '; '.join('%s: %s' % b for b in bad[:3])
            return False, rec, 'property holds numerically at the model and on the structured rotation bank'
        else:
            rec = {'module': modname, 'group': group, 'cell': C.cell_floats(env), 'q': quat_floats(env).tolist(),
                   'hkl': [env.get('h', 1.0), env.get('k', 2.0), env.get('l', -1.0)], 'ubparts': None, 'dl': env.get('dl', 0.0)}
        bad = numeric(rec['module'], rec['group'], rec['cell'], rec['q'], rec['hkl'], rec['ubparts'], dl=rec['dl'])
        if bad:
            return True, rec, '; '.join('%s: %s' % b for b in bad[:3])
        if group == 'ubi_to_u_b':
            for Uc in rotation_bank():
                rec2 = dict(rec)
                rec2['U'] = Uc.tolist()
                bad = numeric(rec2['module'], rec2['group'], rec2['cell'], rec2['q'], rec2['hkl'], None, Umat=rec2['U'])
                if bad:
                    return True, rec2, '; '.join('%s: %s' % b for b in bad[:3])
        return False, rec, 'property holds numerically at the model'
    return replay


def replay(rec):
    r = rec['replay']
    bad = numeric(r['module'], r['group'], r['cell'], r['q'], r['hkl'], r.get('ubparts'), Umat=r.get('U'), dl=r.get('dl', 0.0))
    return bool(bad), '; '.join('%s: %s' % b for b in bad) or 'property holds on the recorded input'
