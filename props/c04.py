"""C04 — each tabulated space group is a group consistent with its metadata and names."""
import re
from fractions import Fraction

import numpy as np
import z3

from vengine import smt

RHOMB = (146, 148, 155, 160, 161, 166, 167)
LAUE_ORDER = {'-1': 2, '2/m': 4, 'mmm': 8, '4/m': 8, '4/mmm': 16, '-3': 6, '-3m': 12, '-3m1': 12, '-31m': 12, '6/m': 12, '6/mmm': 24,
              'm-3': 24, 'm-3m': 48}
META = {
    'explanation': 'For each of the 237 settings the real sg.sg(sgno=..., cell_choice=...) is called and its rot/trans tables become a finite '
                   'relation in the solver (integer matrices, translations as 24ths; a table value further than 2e-6 from a 24th is reported). '
                   'Closure, inverses, identity, absence of duplicates and the nuniq structure are decided with one group element enumerated and '
                   'the other a solver variable ranging over the relation (QF_LIA with mod 24).  Metric preservation is decided for every '
                   'conforming cell at once: the six metric components are real variables constrained linearly to the family of the crystal '
                   'system/setting and R^T.G.R = G is refuted in linear real arithmetic for each distinct rotation.  Laue order, the '
                   'nsymop = nuniq x centring count and the name lookups are finite computations on the live tables (the solver adds nothing there).',
    'functions': ['xfab.sg.sg.__init__'],
    'bounds': {'settings': '230 standard + 7 rhombohedral', 'metric': 'all metric tensors of the conforming family (linear constraints)',
               'names': 'every key of sgdic plus case/whitespace variants (upper, capitalised, blanks inserted)'},
    'outside_claim': ['translations are compared modulo lattice after snapping to 24ths (2e-6 tolerance)'],
    'stubs': [],
    'assumptions': ['conforming-metric families per crystal system as listed in the harness (monoclinic: unique axis b)'],
}


def settings():
    out = [(n, 'standard') for n in range(1, 231)]
    out += [(n, 'rhombohedral') for n in RHOMB]
    return out


def units(tier):
    ss = settings()
    us = []
    # group small ones together to limit process start overhead
    chunk = []
    for s in ss:
        chunk.append(s)
        if len(chunk) == 8:
            us.append({'name': 'sg:' + ','.join('%d%s' % (n, 'r' if c[0] == 'r' else '') for n, c in chunk), 'settings': chunk})
            chunk = []
    if chunk:
        us.append({'name': 'sg:' + ','.join('%d%s' % (n, 'r' if c[0] == 'r' else '') for n, c in chunk), 'settings': chunk})
    us.append({'name': 'names', 'settings': None})
    return us


def snap24(t):
    k = round(float(t) * 24)
    return k, abs(float(t) - k / 24.0)


def family_constraints(crystal_system, cell_choice, g):
    """linear constraints on the direct metric g = (g11,g22,g33,g12,g13,g23) for conforming cells"""
    g11, g22, g33, g12, g13, g23 = g
    cs = crystal_system
    if cell_choice == 'rhombohedral':
        return [g11 == g22, g22 == g33, g12 == g13, g13 == g23]
    if cs == 'triclinic':
        return []
    if cs == 'monoclinic':
        return [g12 == 0, g23 == 0]
    if cs == 'orthorhombic':
        return [g12 == 0, g13 == 0, g23 == 0]
    if cs == 'tetragonal':
        return [g11 == g22, g12 == 0, g13 == 0, g23 == 0]
    if cs in ('trigonal', 'hexagonal'):
        return [g11 == g22, 2 * g12 == -g11, g13 == 0, g23 == 0]
    if cs == 'cubic':
        return [g11 == g22, g22 == g33, g12 == 0, g13 == 0, g23 == 0]
    return None


def member(vars12, rows, idx=None):
    """vars12 in table rows (optionally tied to an index variable)"""
    alts = []
    for k, row in enumerate(rows):
        eqs = [vars12[a] == row[a] for a in range(12)]
        if idx is not None:
            eqs.append(idx == k)
        alts.append(z3.And(eqs))
    return z3.Or(alts)


def compose_concrete(row, vars12):
    """(R1,t1) o (R2,t2) = (R1.R2, R1.t2 + t1) with the first operator concrete"""
    R1 = [row[0:3], row[3:6], row[6:9]]
    t1 = row[9:12]
    R2 = [vars12[0:3], vars12[3:6], vars12[6:9]]
    t2 = vars12[9:12]
    out = []
    for i in range(3):
        for j in range(3):
            out.append(sum(R1[i][k] * R2[k][j] for k in range(3)))
    for i in range(3):
        out.append(sum(R1[i][k] * t2[k] for k in range(3)) + t1[i])
    return out


def same_op(a, b):
    """equality of operators modulo lattice translations (translations in 24ths)"""
    return z3.And([a[i] == b[i] for i in range(9)] + [(a[i] - b[i]) % 24 == 0 for i in range(9, 12)])


def run_unit(u, desc, tier, seed):
    from xfab import sg as sgmod
    smt.INPROC = True
    if desc['settings'] is None:
        return run_names(u, sgmod)
    for (no, cc) in desc['settings']:
        u.paths += 1
        tag = 'Sg%d%s' % (no, '-rhomb' if cc == 'rhombohedral' else '')
        try:
            s = sgmod.sg(sgno=no, cell_choice=cc)
        except Exception as e:
            u.add('C04/%s/construct' % tag, 'violated', 'sg.sg(sgno=%d, cell_choice=%r) raised %r' % (no, cc, e), replay={'kind': 'construct', 'no': no, 'cc': cc})
            continue
        rec = {'kind': 'table', 'no': no, 'cc': cc}

        def fin(key, ok, detail):
            # finite consistency check on the live table (still recorded through the solver interface so that verdict handling is uniform)
            u.prove('C04/%s/%s' % (tag, key), [], z3.BoolVal(bool(ok)), replay=lambda m: (True, dict(rec, what=key), detail), detail=detail)
        rot = np.asarray(s.rot)
        trans = np.asarray(s.trans)
        n = int(s.nsymop)
        fin('lengths', len(rot) == n and len(trans) == n and rot.shape[1:] == (3, 3), 'len(rot)=%d len(trans)=%d nsymop=%d' % (len(rot), len(trans), n))
        if not (len(rot) == len(trans) and len(rot) > 0):
            continue
        if s.no != no:
            fin('number', False, 'class Sg%d reports no=%r' % (no, s.no))
        isint = bool(np.all(rot == np.round(rot)) and np.all(np.abs(rot) <= 1))
        fin('rot-entries-in-{-1,0,1}', isint, 'rotation entries')
        rows = []
        worst = 0.0
        for R, t in zip(rot, trans):
            ks = []
            for x in t:
                k, d = snap24(x)
                worst = max(worst, d)
                ks.append(int(k))
            rows.append([int(round(x)) for x in R.flatten()] + ks)
        fin('translations-are-24ths', worst <= 2e-6, 'largest distance of a tabulated translation from k/24: %.2e' % worst)
        m = len(rows)
        ident = [1, 0, 0, 0, 1, 0, 0, 0, 1, 0, 0, 0]
        g = [z3.Int('g%d' % i) for i in range(12)]
        idx1, idx2 = z3.Int('i1'), z3.Int('i2')
        h = [z3.Int('h%d' % i) for i in range(12)]
        memg = member(g, rows)

        def rp(what):
            return lambda model: (True, dict(rec, what=what), 'table of %s violates %s (solver witness %s)' % (tag, what, {k: str(v) for k, v in list((model or {}).items())[:14]}))
        # identity present  (expected sat: refute "no member equals e")
        st, model, _ = smt.solve([memg, same_op(g, ident)], timeout_s=30, cvc5_timeout_s=0)
        if st == 'sat':
            u.add('C04/%s/identity' % tag, 'discharged', 'identity operator is a member')
        elif st == 'unsat':
            u.add('C04/%s/identity' % tag, 'violated', 'no member equals the identity', replay=dict(rec, what='identity'))
        else:
            u.add('C04/%s/identity' % tag, 'inconclusive', 'solver unknown')
        # closure and inverses: first factor enumerated, second a solver variable over the relation
        notin = lambda op: z3.And([z3.Not(same_op(op, r)) for r in rows])
        closure_bad = []
        for i, row in enumerate(rows):
            comp = compose_concrete(row, g)
            closure_bad.append(z3.And(idx1 == i, notin(comp)))
        u.prove('C04/%s/closure' % tag, [memg, idx1 >= 0, idx1 < m], z3.Not(z3.Or(closure_bad)), replay=rp('closure'),
                detail='op_i o g in table for every i and every member g (%d x %d)' % (m, m), timeout=120, cvc5_timeout=0, sample=(no in (14, 62)))
        inv_missing = []
        for i, row in enumerate(rows):
            has = z3.Or([z3.And([a == b if k < 9 else (a - b) % 24 == 0 for k, (a, b) in enumerate(zip(compose_concrete(row, r2), ident))]) for r2 in rows])
            has = z3.simplify(has)
            inv_missing.append(z3.And(idx1 == i, z3.Not(has)))
        u.prove('C04/%s/inverses' % tag, [idx1 >= 0, idx1 < m], z3.Not(z3.Or(inv_missing)), replay=rp('inverses'),
                detail='every member has an inverse in the table', timeout=120, cvc5_timeout=0)
        # no duplicates: two members at distinct indices are different operations
        u.prove('C04/%s/no-duplicates' % tag, [member(g, rows, idx1), member(h, rows, idx2), idx1 < idx2], z3.Not(same_op(g, h)),
                replay=rp('no-duplicates'), detail='distinct indices carry distinct operations', timeout=120, cvc5_timeout=0)
        # nuniq structure
        nu = int(s.nuniq)
        fin('nuniq-range', 1 <= nu <= m, 'nuniq=%d nsymop=%d' % (nu, m))
        if 1 <= nu <= m:
            firsts = rows[:nu]
            u.prove('C04/%s/nuniq-distinct' % tag, [member(g, firsts, idx1), member(h, firsts, idx2), idx1 < idx2],
                    z3.Not(z3.And([g[a] == h[a] for a in range(9)])), replay=rp('nuniq-distinct'),
                    detail='first nuniq rotation matrices pairwise distinct', timeout=60, cvc5_timeout=0)
            u.prove('C04/%s/nuniq-complete' % tag, [memg], z3.Or([z3.And([g[a] == r[a] for a in range(9)]) for r in firsts]),
                    replay=rp('nuniq-complete'), detail='every rotation of the table occurs among the first nuniq', timeout=60, cvc5_timeout=0)
            ncent = sum(1 for r in rows if r[:9] == ident[:9])
            fin('nsymop=nuniq*centrings', m == nu * ncent, 'nsymop=%d nuniq=%d pure translations=%d' % (m, nu, ncent))
            # Laue class order (finite closure of rotations and inversion)
            mats = {tuple(r[:9]) for r in firsts}
            mats |= {tuple(-x for x in mm) for mm in mats}
            changed = True
            while changed and len(mats) <= 96:
                changed = False
                for a in list(mats):
                    for b in list(mats):
                        A = np.array(a).reshape(3, 3)
                        B = np.array(b).reshape(3, 3)
                        cm = tuple(int(x) for x in (A @ B).flatten())
                        if cm not in mats:
                            mats.add(cm)
                            changed = True
            want = LAUE_ORDER.get(s.Laue)
            fin('Laue-order', want is not None and len(mats) == want, 'Laue=%r: rotations+inversion generate %d matrices, class order %r' % (s.Laue, len(mats), want))
            # metric preservation for every conforming cell (linear real arithmetic)
            G = [z3.Real(nm) for nm in ('g11', 'g22', 'g33', 'g12', 'g13', 'g23')]
            fam = family_constraints(s.crystal_system, s.cell_choice, G)
            cc_ok = (s.cell_choice == cc) or (cc == 'standard' and no in RHOMB and s.cell_choice == 'hexagonal')
            if fam is None or not cc_ok:
                fin('crystal-system', False, 'crystal_system=%r cell_choice=%r (requested %r)' % (s.crystal_system, s.cell_choice, cc))
            else:
                Gm = [[G[0], G[3], G[4]], [G[3], G[1], G[5]], [G[4], G[5], G[2]]]
                bad = []
                for r in firsts:
                    R = [r[0:3], r[3:6], r[6:9]]
                    for a in range(3):
                        for b in range(a, 3):
                            e = sum(R[k][a] * Gm[k][l] * R[l][b] for k in range(3) for l in range(3))
                            bad.append(e != Gm[a][b])

                def rpm(model):
                    return True, dict(rec, what='metric'), 'some rotation of %s does not preserve the conforming metric %s' % (tag, {k: str(v) for k, v in (model or {}).items()})
                u.prove('C04/%s/metric-preserved' % tag, fam, z3.Not(z3.Or(bad)), replay=rpm,
                        detail='R^T.G.R = G for every distinct rotation and every %s metric' % (cc if cc == 'rhombohedral' else s.crystal_system), timeout=60,
                        sample=(no == 9))


def variants(key):
    vs = {key, key.upper(), key.capitalize(), ' ' + key, key + ' ', ' '.join(key), key[:1].upper() + key[1:],
          key[:1] + ' ' + key[1:], (key[:-1] + ' ' + key[-1:]).upper(), '\t' + key.upper() + '\n'}
    return sorted(vs)


def run_names(u, sgmod):
    import xfab.sglib as sglib
    u.paths = 1
    bad = []
    n = 0
    numbers = set()
    for key, klass in sgmod.sgdic.items():
        no = int(re.sub(r'\D', '', klass))
        numbers.add(no)
        want_cc = 'rhombohedral' if (key[0] == 'r' and key[-1] == 'r') else 'standard'
        for var in variants(key):
            n += 1
            try:
                s = sgmod.sg(sgname=var)
            except Exception as e:
                bad.append('sg(sgname=%r) raised %r' % (var, e))
                continue
            ref = sgmod.sg(sgno=no, cell_choice=want_cc)
            if s.no != no:
                bad.append('sg(sgname=%r).no=%r expected %d' % (var, s.no, no))
            elif s.cell_choice != ref.cell_choice or not np.array_equal(s.rot, ref.rot) or not np.allclose(s.trans, ref.trans, atol=1e-12, rtol=0):
                bad.append('sg(sgname=%r) differs from sg(sgno=%d, cell_choice=%r)' % (var, no, want_cc))
    for no in range(1, 231):
        s = sgmod.sg(sgno=no)
        nm = re.sub(r'\s+', '', s.name).lower()
        if nm not in sgmod.sgdic or int(re.sub(r'\D', '', sgmod.sgdic[nm])) != no:
            bad.append('sg(sgno=%d).name=%r does not map back to %d' % (no, s.name, no))
    # history independence: sg.sg must return the tables of the requested setting whatever was requested before in this process
    for no in RHOMB:
        klass = getattr(sglib, 'Sg%d' % no)
        keyr = [k for k, vv in sgmod.sgdic.items() if vv == 'Sg%d' % no and k[-1] == 'r' and len(k) > 2 and k[:-1] in sgmod.sgdic]
        seq = [('no', 'standard'), ('no', 'rhombohedral'), ('no', 'standard'), ('name', 'rhombohedral'), ('name', 'standard'), ('no', 'rhombohedral')]
        for how, cc in seq:
            n += 1
            fresh = klass(cell_choice=cc)
            if how == 'no':
                got = sgmod.sg(sgno=no, cell_choice=cc)
            else:
                nm = keyr[0] if cc == 'rhombohedral' else keyr[0][:-1]
                got = sgmod.sg(sgname=nm)
            if got.cell_choice != fresh.cell_choice or not np.array_equal(got.rot, np.array(fresh.rot)) or not np.allclose(got.trans, np.array(fresh.trans), atol=1e-12, rtol=0) \
                    or list(got.syscond) != list(fresh.syscond):
                bad.append('Sg%d requested as %s/%s after other settings were used returns the tables of another setting' % (no, how, cc))
    if numbers != set(range(1, 231)):
        bad.append('sgdic covers %d numbers' % len(numbers))
    u.prove('C04/names/lookup', [], z3.BoolVal(not bad), replay=lambda m: (True, {'kind': 'names'}, '; '.join(bad[:5])),
            detail='%d name variants of %d keys resolve to the same tables as lookup by number (finite check)' % (n, len(sgmod.sgdic)))
    u.samples.append({'obligation': 'C04/names/lookup', 'variants_tried': n, 'example': variants('r-3cr')})


def replay(rec):
    from xfab import sg as sgmod
    r = rec['replay']
    if r.get('kind') == 'names':
        from vengine.core import Unit
        u = Unit('names')
        run_names(u, sgmod)
        res = u.results[0]
        return res['status'] != 'discharged', res['detail']
    from vengine.core import Unit
    u = Unit('replay')
    run_unit(u, {'settings': [(r['no'], r['cc'])]}, 'quick', 0)
    badk = [x for x in u.results if x['status'] == 'violated']
    return bool(badk), '; '.join(x['key'] + ': ' + x['detail'][:200] for x in badk[:4]) or 'table is consistent'
