"""C08 — StructureFactor equals the explicit sum over the unit-cell contents (harness shared with C07: props/c07.py)."""
from . import c07 as _c

META = dict(_c.META)
units = _c.units
replay = _c.replay


def run_unit(u, desc, tier, seed):
    _c.PID = 'C08'
    return _c.run_unit(u, desc, tier, seed)
