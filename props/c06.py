"""C06 — genhkl_unique lists one reflection per Laue family, genhkl_all is the union of the families; traversal geometry of
genhkl_base explored path by path on a symbolic reciprocal metric (bounded lattice box)."""
import importlib
import itertools
from fractions import Fraction

import numpy as np
import z3

from vengine.field import Field, Q, lift, EngineError
from vengine.explore import Ctx
from vengine import smt, core
from vengine.symnp import patched, SYMNP
from .c04 import RHOMB
from .c05 import table_rows, extinct_concrete

META = {
    'explanation': 'genhkl_base / genhkl_unique / genhkl_all (both modules) run on a SYMBOLIC reciprocal metric G* of the Laue class\'s family and a symbolic shell '
                   '(squares m < M of sintlmin, sintlmax): tools.sintl is replaced by its C01 summary sintl^2 = h.G*.h/4, all comparisons of the traversal are '
                   'on squares, hence LINEAR in (G*, m, M) because hkl is a concrete integer vector on every path.  The traversal loops are unrolled by '
                   'execution under the precondition that every lattice point with |h|_inf = N+1 lies outside 1.21.M (so the walk cannot leave the cube).  '
                   'At each leaf (rows are concrete integers): every box point that can be in the shell on this path and is not extinct is listed exactly '
                   'once by genhkl_all, every listed row is in the shell on this path, genhkl_unique rows are pairwise inequivalent under the point group '
                   'with inversion and their orbits are genhkl_all; fourth column = the summary value of that row; order mode: rows non-decreasing.',
    'functions': ['xfab.tools.genhkl_base', 'xfab.tools.genhkl_unique', 'xfab.tools.genhkl_all', 'xfab.laue.genhkl_base', 'xfab.laue.genhkl_unique', 'xfab.laue.genhkl_all'],
    'bounds': {'box': '|h|_inf <= N (N=2 for cubic, tetragonal, hexagonal, trigonal, rhombohedral classes; N=1 for mmm, 2/m, -1)',
               'metric': 'diagonal entries within +-20% of each other where the family leaves them free, off-diagonal cosines within +-0.25 (a diagonally dominant, hence positive definite, region)',
               'groups': 'the symmorphic representative of each Laue class and setting (all-zero reflection conditions; conditions are C05\'s subject)'},
    'outside_claim': ['lattice points outside the cube', 'metrics outside the stated region (needle-shaped cells)', 'numpy RNG values that are integer-dependent (genericity)'],
    'stubs': ['tools.sintl -> sqrt(h.G*.h)/2 compared through squares (C01 lemma)', 'numpy.argsort -> identity (membership mode); merge sort with solver-decided comparisons (order mode) for the cubic classes (thorough: also 4/mmm, 6/mmm)',
              'numpy.random.rand -> fixed generic values (genericity assumption for numpy.unique on random projections)'],
    'assumptions': ['C01 lemma: sintl^2 = h.G*.h/4', 'C04: rotations of the class preserve every metric of the family'],
}
REPS = {  # laue class / setting -> (space-group number, cell_choice, N quick, N thorough)
    'm-3m': (221, 'standard', 2, 3), 'm-3': (200, 'standard', 2, 3), '4/mmm': (123, 'standard', 2, 3), '4/m': (83, 'standard', 2, 2),
    '6/mmm': (191, 'standard', 2, 2), '6/m': (175, 'standard', 2, 2), '-3m1': (164, 'standard', 2, 2), '-31m': (162, 'standard', 2, 2), '-3': (147, 'standard', 2, 2),
    '-3m:R': (166, 'rhombohedral', 1, 2), '-3:R': (148, 'rhombohedral', 1, 2), 'mmm': (47, 'standard', 1, 2), '2/m': (10, 'standard', 1, 1), '-1': (2, 'standard', 1, 1),
}
UNIT_TIMEOUT = {'quick': 400, 'thorough': 1500}


def units(tier):
    us = []
    for m in ('tools', 'laue'):
        for cls in REPS:
            if m == 'laue' and tier == 'quick' and cls in ('mmm', '2/m', '-1', '-3m:R', '-3:R'):
                continue            # laue twin of the expensive classes only in the thorough tier (C14 compares the modules on concrete cells)
            us.append({'name': '%s/%s' % (m, cls), 'module': m, 'cls': cls, 'cost': {'-1': 100, '2/m': 60, 'mmm': 40}.get(cls, 10)})
    return us


class Stl:
    """sin(theta)/lambda known through its square (a linear expression in G*, m, M for concrete hkl)"""

    def __init__(self, sq):
        self.sq = lift(sq)

    def __mul__(self, k):
        kk = lift(k)
        return Stl(self.sq * kk * kk)
    __rmul__ = __mul__

    def _o(self, o):
        if isinstance(o, Stl):
            return o.sq
        c = lift(o)
        return c * c

    def __lt__(self, o):
        return self.sq < self._o(o)

    def __le__(self, o):
        return self.sq <= self._o(o)

    def __gt__(self, o):
        return self.sq > self._o(o)

    def __ge__(self, o):
        return self.sq >= self._o(o)

    def __repr__(self):
        return 'Stl(%r)' % (self.sq,)


def family(f, crystal_system, cell_choice):
    v = f.var
    g1, g2, g3, c1, c2, c3 = v('g1'), v('g2'), v('g3'), v('k1'), v('k2'), v('k3')     # G*_ii and cosine-like off-diagonal ratios
    half = Fraction(1, 2)
    if cell_choice == 'rhombohedral':
        d = [g1, g1, g1]
        o = [c1 * g1, c1 * g1, c1 * g1]
        free = (['g1'], ['k1'])
    elif crystal_system == 'cubic':
        d, o, free = [g1, g1, g1], [0, 0, 0], (['g1'], [])
    elif crystal_system == 'tetragonal':
        d, o, free = [g1, g1, g3], [0, 0, 0], (['g1', 'g3'], [])
    elif crystal_system in ('trigonal', 'hexagonal'):
        d, o, free = [g1, g1, g3], [0, 0, half * g1], (['g1', 'g3'], [])
    elif crystal_system == 'orthorhombic':
        d, o, free = [g1, g2, g3], [0, 0, 0], (['g1', 'g2', 'g3'], [])
    elif crystal_system == 'monoclinic':
        d, o, free = [g1, g2, g3], [0, c2 * g1, 0], (['g1', 'g2', 'g3'], ['k2'])
    else:
        d, o, free = [g1, g2, g3], [c1 * g1, c2 * g1, c3 * g1], (['g1', 'g2', 'g3'], ['k1', 'k2', 'k3'])
    G = np.empty((3, 3), dtype=object)
    for i in range(3):
        G[i, i] = lift(d[i])
    G[1, 2] = G[2, 1] = lift(o[0])
    G[0, 2] = G[2, 0] = lift(o[1])
    G[0, 1] = G[1, 0] = lift(o[2])
    return G, free


def qform(G, h):
    return sum(int(h[i]) * int(h[j]) * G[i, j] for i in range(3) for j in range(3))


def run_unit(u, desc, tier, seed):
    from xfab import sg as sgmod
    modname, cls = desc['module'], desc['cls']
    mod = importlib.import_module('xfab.' + modname)
    no, cc, Nq, Nt = REPS[cls]
    N = Nq if tier == 'quick' else Nt
    s = sgmod.sg(sgno=no, cell_choice=cc)
    rows_ops = table_rows(s)
    f = Field(['g1', 'g2', 'g3', 'k1', 'k2', 'k3', 'm', 'M'], naux=0)
    ctx = Ctx(f, feas_timeout=5.0)
    zc = ctx.zc
    v = f.var
    G, free = family(f, s.crystal_system, s.cell_choice)
    pre = [zc.cmp0(v('m'), '>='), zc.cmp0(v('M') - v('m'), '>'), zc.cmp0(v('g1') - 1, '==')]      # scale fixed by g1 = 1 (the traversal is scale invariant)
    for gname in free[0]:
        if gname != 'g1':
            pre += [zc.cmp0(v(gname) - Fraction(8, 10), '>='), zc.cmp0(v(gname) - Fraction(12, 10), '<=')]
    for kname in free[1]:
        pre += [zc.cmp0(v(kname) - Fraction(1, 4), '<='), zc.cmp0(v(kname) + Fraction(1, 4), '>=')]
    # cube bound: every lattice point on the surface |h|_inf = N+1 lies outside 1.21*M  (sintl^2 = q/4)
    for h in itertools.product(range(-N - 1, N + 2), repeat=3):
        if max(abs(x) for x in h) == N + 1 and h > (0, 0, 0):
            pre.append(zc.cmp0(qform(G, h) * Fraction(1, 4) - Fraction(121, 100) * v('M'), '>'))
    ctx.pre = pre
    smt.INPROC = True           # linear real arithmetic only
    order_mode = cls in (('m-3m', 'm-3') if tier == 'quick' else ('m-3m', 'm-3', '4/mmm', '6/mmm'))
    token = ['cell-token', None, None, None, 1.0, 2.0]      # unit_cell[4] != unit_cell[5] only feeds debug logging
    minS, maxS = Stl(v('m')), Stl(v('M'))

    def sintl_summary(cell, hkl):
        return Stl(qform(G, [int(x) for x in hkl]) * Fraction(1, 4))

    class NPX:
        def __getattr__(self, k):
            return getattr(SYMNP, k)

        @staticmethod
        def argsort(a, *args, **kw):
            a = np.asarray(a, dtype=object)
            out = np.zeros(a.shape, dtype=int)
            for col in range(a.shape[1] if a.ndim == 2 else 1):
                out[:, col] = np.arange(a.shape[0])
            if order_mode and a.ndim == 2 and a.shape[1] == 4 and a.shape[0] > 1:
                # order mode: the column the code sorts on is really sorted (merge sort, comparisons are path decisions)
                from .c18 import merge_argsort
                for col in range(4):
                    keys = list(a[:, col])
                    if all(isinstance(k, Stl) for k in keys):
                        out[:, col] = merge_argsort(keys)
                    else:
                        out[:, col] = np.argsort(np.array([float(k) for k in keys]), kind='stable')
            return out

        class random:
            @staticmethod
            def rand(*shape):
                vals = np.array([0.12345678901, 0.61803398875, 0.31415926535, 0.27182818284, 0.70710678118, 0.57721566490, 0.91596559417, 0.20205690315, 0.83462684167])
                return vals[:int(np.prod(shape))].reshape(shape)

        @staticmethod
        def unique(x, return_index=False):
            return np.unique(np.asarray(x, dtype=float), return_index=return_index)
    npx = NPX()

    def body():
        with patched(mod, extra={'n': npx, 'np': npx, 'sintl': sintl_summary}):
            Hu = mod.genhkl_unique(token, minS, maxS, sgno=no, cell_choice=cc, output_stl=True)
            Ha = mod.genhkl_all(token, minS, maxS, sgno=no, cell_choice=cc, output_stl=True)
        return Hu, Ha
    budget = 600 if tier == 'quick' else 20000
    leaves, exh = ctx.explore(body, max_paths=budget, max_seconds=250 if tier == 'quick' else 1200)
    u.exhaustive = exh
    u.decisions = ctx.decisions
    boxpts = [h for h in itertools.product(range(-N, N + 1), repeat=3) if h != (0, 0, 0)]
    allowed = [h for h in boxpts if not extinct_concrete(rows_ops, list(h))]
    pg = []
    for R, t in rows_ops:
        if R not in pg:
            pg.append(R)
    nviol = 0
    for li, leaf in enumerate(leaves):
        u.paths += 1
        if leaf['exception'] is not None:
            u.prove('C06/%s/%s/no-exception' % (cls, modname), ctx.base() + leaf['pc'], z3.BoolVal(False), replay=mk_replay(f, modname, cls, N), detail=repr(leaf['exception']))
            continue
        Hu, Ha = leaf['result']
        pre_l = ctx.base() + leaf['pc']
        rows_a = [tuple(int(x) for x in r[:3]) for r in np.asarray(Ha, dtype=object)]
        rows_u = [tuple(int(x) for x in r[:3]) for r in np.asarray(Hu, dtype=object)]
        rp = mk_replay(f, modname, cls, N)
        # (1) no repeats, integer rows
        dup = len(set(rows_a)) != len(rows_a)
        # (2) every listed row is in the shell on this path and allowed
        inshell = lambda h: z3.And(zc.cmp0(qform(G, h) * Fraction(1, 4) - v('m'), '>'), zc.cmp0(qform(G, h) * Fraction(1, 4) - v('M'), '<='))
        extra = [h for h in rows_a if h not in allowed]
        listed_ok = z3.And([inshell(h) for h in set(rows_a)]) if rows_a else z3.BoolVal(True)
        # (3) nothing missing: no box point can be in the shell on this path without being listed
        missing = [h for h in allowed if h not in set(rows_a)]
        none_missing = z3.Not(z3.Or([inshell(h) for h in missing])) if missing else z3.BoolVal(True)
        # (4) fourth column of each row is the summary value of that row's hkl
        col4 = True
        for r in np.asarray(Ha, dtype=object):
            if not (isinstance(r[3], Stl) and (r[3].sq - qform(G, [int(x) for x in r[:3]]) * Fraction(1, 4)).iszero()):
                col4 = False
        # (5) unique rows pairwise inequivalent, orbits = all
        orb_all = set()
        ineq = True
        for h in rows_u:
            orb = set()
            for R in pg:
                w = tuple(sum(h[i] * R[i][j] for i in range(3)) for j in range(3))
                orb.add(w)
                orb.add(tuple(-x for x in w))
            if orb & orb_all:
                ineq = False
            orb_all |= orb
        cover = (orb_all == set(rows_a))
        key = 'C06/%s/%s' % (cls, modname)
        if order_mode:
            for nm_, Hx in (('unique', Hu), ('all', Ha)):
                sq = [r[3].sq for r in np.asarray(Hx, dtype=object) if isinstance(r[3], Stl)]
                goal_o = z3.And([zc.cmp0(sq[i + 1] - sq[i], '>=') for i in range(len(sq) - 1)]) if len(sq) > 1 else z3.BoolVal(True)
                u.prove(key + '/%s:rows-sorted-by-sintl' % nm_, pre_l, goal_o, replay=rp, detail='path %d: %d rows of genhkl_%s non-decreasing in sin(theta)/lambda' % (li, len(sq), nm_), timeout=30)
        st1 = u.prove(key + '/all:no-repeats,col4,unique-inequivalent,orbits-cover', pre_l, z3.BoolVal(not dup and col4 and ineq and cover and not extra), replay=rp,
                      detail='path %d: %d rows in genhkl_all, %d in genhkl_unique (dup=%s col4=%s inequivalent=%s cover=%s extra=%s)' % (li, len(rows_a), len(rows_u), dup, col4, ineq, cover, extra[:2]),
                      sample=(li == 0))
        st2 = u.prove(key + '/all:listed-rows-in-shell', pre_l, listed_ok, replay=rp, detail='path %d: every listed row satisfies m < sintl^2 <= M on this path' % li, timeout=30)
        st3 = u.prove(key + '/all:none-missing', pre_l, none_missing, replay=rp, detail='path %d: no allowed box point (of %d unlisted ones) can lie in the shell on this path' % (li, len(missing)), timeout=30)
        if li < 4:
            # translator validation: a solver witness of this path, turned into a real cell and shell, must make the real code
            # (real sintl, real numpy) return exactly the rows of this leaf
            stw, mw, _ = smt.solve(pre_l + [zc.cmp0(v('M') - v('m') - Fraction(1, 100), '>=')], timeout_s=10, cvc5_timeout_s=0)
            if stw == 'sat' and mw:
                try:
                    import math
                    envw = {k: float(x) for k, x in mw.items() if not isinstance(x, (bool, str))}
                    cellw, _ = cell_from_env(envw, s.crystal_system, s.cell_choice)
                    lo_, hi_ = math.sqrt(max(envw.get('m', 0.0), 0.0)), math.sqrt(envw.get('M', 1.0))
                    np.random.seed(5)
                    real_rows = {tuple(int(round(x)) for x in r[:3]) for r in np.asarray(mod.genhkl_all(cellw, lo_, hi_, sgno=no, cell_choice=cc))}
                    # rows whose sintl is within 1e-9 of a shell edge may differ through rounding: compare away from the edges
                    def edge(h):
                        sv = float(mod.sintl(cellw, list(h)))
                        return abs(sv - lo_) < 1e-7 or abs(sv - hi_) < 1e-7 or abs(sv - 1.1 * hi_) < 1e-7
                    diff = {h for h in (real_rows ^ set(rows_a)) if not edge(h)}
                    if not diff:
                        u.validated += 1
                    else:
                        u.notes.append('witness of path %d: real genhkl_all differs from the symbolic leaf in %s' % (li, sorted(diff)[:3]))
                except Exception as ex:
                    u.notes.append('witness replay of path %d failed: %r' % (li, ex))
        if st3 == 'violated' and u.results and u.results[-1]['status'] == 'violated' and u.results[-1].get('replay'):
            # key the finding by the Laue families that are missing, so that a different missing family is a different violation
            orbs = u.results[-1]['replay'].get('missing_orbits') or []
            u.results[-1]['key'] += '[missing families %s]' % ','.join(''.join(str(x) for x in o) for o in orbs)
        if 'violated' in (st1, st2, st3):
            nviol += 1
            if nviol >= 500:
                u.notes.append('stopped after 5 violating paths of %d explored' % len(leaves))
                break


# ------------------------------------------------------------------------------------------------

def cell_from_env(env, crystal_system, cell_choice):
    """a direct cell whose reciprocal metric is the model's G* (via inversion)"""
    import math
    G = np.zeros((3, 3))
    g1, g2, g3 = env.get('g1', 1.0), env.get('g2', 1.0), env.get('g3', 1.0)
    k1, k2, k3 = env.get('k1', 0.0), env.get('k2', 0.0), env.get('k3', 0.0)
    if cell_choice == 'rhombohedral':
        d, o = [g1] * 3, [k1 * g1] * 3
    elif crystal_system == 'cubic':
        d, o = [g1] * 3, [0, 0, 0]
    elif crystal_system == 'tetragonal':
        d, o = [g1, g1, g3], [0, 0, 0]
    elif crystal_system in ('trigonal', 'hexagonal'):
        d, o = [g1, g1, g3], [0, 0, 0.5 * g1]
    elif crystal_system == 'orthorhombic':
        d, o = [g1, g2, g3], [0, 0, 0]
    elif crystal_system == 'monoclinic':
        d, o = [g1, g2, g3], [0, k2 * g1, 0]
    else:
        d, o = [g1, g2, g3], [k1 * g1, k2 * g1, k3 * g1]
    for i in range(3):
        G[i, i] = d[i]
    G[1, 2] = G[2, 1] = o[0]
    G[0, 2] = G[2, 0] = o[1]
    G[0, 1] = G[1, 0] = o[2]
    Gd = np.linalg.inv(G)
    a, b, c = math.sqrt(Gd[0, 0]), math.sqrt(Gd[1, 1]), math.sqrt(Gd[2, 2])
    al = math.degrees(math.acos(Gd[1, 2] / b / c))
    be = math.degrees(math.acos(Gd[0, 2] / a / c))
    ga = math.degrees(math.acos(Gd[0, 1] / a / b))
    return [a, b, c, al, be, ga], G


MISSING_ORBITS = []


def numeric(modname, cls, N, cell, lo, hi):
    del MISSING_ORBITS[:]
    from xfab import sg as sgmod
    mod = importlib.import_module('xfab.' + modname)
    no, cc, _, _ = REPS[cls]
    s = sgmod.sg(sgno=no, cell_choice=cc)
    rows_ops = table_rows(s)
    bad = []
    try:
        np.random.seed(7)
        Ha = np.asarray(mod.genhkl_all(cell, lo, hi, sgno=no, cell_choice=cc, output_stl=True))
        Hu = np.asarray(mod.genhkl_unique(cell, lo, hi, sgno=no, cell_choice=cc, output_stl=True))
        have = [tuple(int(round(x)) for x in r[:3]) for r in Ha]
        ref = set()
        M = N + 2
        for h in itertools.product(range(-M, M + 1), repeat=3):
            if h == (0, 0, 0):
                continue
            sv = float(mod.sintl(cell, list(h)))
            if lo * (1 + 1e-9) < sv <= hi * (1 - 1e-9) and not extinct_concrete(rows_ops, list(h)):
                ref.add(h)
        if len(set(have)) != len(have):
            bad.append(('repeats', 'genhkl_all lists %d rows, %d distinct' % (len(have), len(set(have)))))
        border = lambda h: abs(float(mod.sintl(cell, list(h))) - lo) < 1e-9 * lo or abs(float(mod.sintl(cell, list(h))) - hi) < 1e-9 * hi
        miss = [h for h in ref - set(have) if not border(h)]
        extra = [h for h in set(have) - ref if not border(h)]
        if miss:
            bad.append(('missing', 'reflections %s are in the shell and allowed but not listed' % (sorted(miss)[:4],)))
            reps = set()
            for h in miss:
                orb = set()
                for R, t in rows_ops:
                    w = tuple(sum(h[i] * R[i][j] for i in range(3)) for j in range(3))
                    orb.add(w)
                    orb.add(tuple(-x for x in w))
                reps.add(max(orb))
            MISSING_ORBITS[:] = sorted(reps)
        if extra:
            bad.append(('extra', 'rows %s are listed but not in the shell / extinct' % (sorted(extra)[:4],)))
        st = Ha[:, 3] if len(Ha) else []
        if any(st[i] > st[i + 1] + 1e-12 for i in range(len(st) - 1)):
            bad.append(('order', 'genhkl_all rows are not sorted by sintl'))
        for r in Ha:
            if abs(r[3] - float(mod.sintl(cell, list(r[:3])))) > 1e-9:
                bad.append(('col4', 'row %s carries sintl %r' % (r[:3], r[3])))
                break
        st = Hu[:, 3] if len(Hu) else []
        if any(st[i] > st[i + 1] + 1e-12 for i in range(len(st) - 1)):
            bad.append(('order', 'genhkl_unique rows are not sorted by sintl'))
    except Exception as e:
        bad.append(('exception', repr(e)))
    return bad


def mk_replay(f, modname, cls, N):
    def replay(model):
        import math
        from xfab import sg as sgmod
        no, cc, _, _ = REPS[cls]
        s = sgmod.sg(sgno=no, cell_choice=cc)
        env = {k: float(x) for k, x in (model or {}).items() if not isinstance(x, (bool, str))}
        cell, G = cell_from_env(env, s.crystal_system, s.cell_choice)
        m, M = max(env.get('m', 0.0), 0.0), env.get('M', 1.0)
        lo, hi = math.sqrt(m), math.sqrt(M)
        if lo <= 0:
            lo = 1e-6
        rec = {'module': modname, 'cls': cls, 'N': N, 'cell': cell, 'lo': lo, 'hi': hi}
        bad = numeric(modname, cls, N, cell, lo, hi)
        if bad:
            rec['missing_orbits'] = [list(x) for x in MISSING_ORBITS]
            return True, rec, '; '.join('%s: %s' % b for b in bad[:2])
        return False, rec, 'genhkl_all/genhkl_unique are correct for cell %s shell (%.5f, %.5f]' % ([round(x, 4) for x in cell], lo, hi)
    return replay


def replay(rec):
    r = rec['replay']
    bad = numeric(r['module'], r['cls'], r['N'], r['cell'], r['lo'], r['hi'])
    return bool(bad), '; '.join('%s: %s' % b for b in bad) or 'correct on the recorded input'
