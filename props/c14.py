"""C14 — xfab.tools and xfab.laue agree on everything except the documented factor 2*pi (differential harness)."""
import importlib
import inspect
import math
from fractions import Fraction

import numpy as np
import z3

from vengine.field import Field, Q, lift, EngineError, UnsupportedInShim
from vengine.angle import Angle
from vengine.explore import Ctx
from vengine import smt, core, zprox
from vengine.symnp import patched, SYMNP
from . import common as C
from .c02 import QN, QRStub

META = {
    'explanation': 'For every function name defined in both modules (list computed from the live modules) tools.f and laue.f are executed in ONE '
                   'program on the same symbolic inputs (cells, unit-quaternion rotations, angle pairs, strains, g-vectors, solver integers for hkl); '
                   'the explorer forks through both; at every joint leaf the results must be identical expressions, except for the documented convention: '
                   'B-valued outputs of tools are 2*pi times those of laue, and B/g-valued inputs are scaled accordingly.  Raised exceptions must agree. '
                   'genhkl_all/genhkl_unique/genhkl_base/genhkl (loops over a symbolic metric are out of reach of path exploration here) are compared on '
                   'concrete cells for a sample of space groups -- that part is enumeration, not a solver verdict, and is labelled as such.',
    'functions': [],
    'bounds': {'inputs': 'as in C01-C03, C09, C13: all valid cells, all proper rotations, all angles, strains, all real/integer hkl', 'genhkl_*': '12 groups x 2 cells x 1 shell, concrete'},
    'outside_claim': ['genhkl_* beyond the concrete sample (their reflection conditions are covered for all hkl through sysabs)', 'binary64 rounding'],
    'stubs': ['as in C01-C03, C09, C13', 'numpy.linalg.qr contract stub (same stub object for both modules)'],
    'assumptions': ['a function present in only one module is reported as unpaired in the evidence, not as a violation'],
}
KAPPA_OUT = {'form_b_mat', 'epsilon_to_b', 'epsilon_to_b_old'}
CONCRETE = {'genhkl_all', 'genhkl_unique', 'genhkl_base', 'genhkl'}


def paired():
    from xfab import tools, laue
    a = {n for n, f in vars(tools).items() if inspect.isfunction(f) and f.__module__ == 'xfab.tools'}
    b = {n for n, f in vars(laue).items() if inspect.isfunction(f) and f.__module__ == 'xfab.laue'}
    return sorted(a & b), sorted(a ^ b)


def units(tier):
    both, only = paired()
    META['functions'] = ['xfab.tools.' + n for n in both] + ['xfab.laue.' + n for n in both]
    us = [{'name': n, 'fn': n, 'cost': 50 if n in ('u_to_euler', 'reduce_cell') else 1} for n in both]
    us.append({'name': 'unpaired-report', 'fn': None})
    return us


# input builders ---------------------------------------------------------------------------------

def make_field(kind):
    names = ['pi']
    if 'cell' in kind:
        names += C.CELL_NAMES
    if 'cell2' in kind:
        names += ['x' + n for n in C.CELL_NAMES]
    if 'quat' in kind:
        names += QN
    if 'hkl' in kind:
        names += ['h', 'k', 'l']
    if 'eps' in kind:
        names += ['e11', 'e12', 'e13', 'e22', 'e23', 'e33']
    if 'ang3' in kind:
        names += ['c1', 's1', 'c2', 's2', 'c3', 's3']
    if 'vec3' in kind:
        names += ['r1', 'r2', 'r3']
    if 'xy' in kind:
        names += ['yy', 'xx']
    if 'lam' in kind:
        names += ['lam']
    if 'omega' in kind:
        names += ['ct', 'st', 'g0', 'g1', 'g2', 'cx', 'sx', 'cy', 'sy', 'kap']
    if 'qr' in kind:
        names += ['b11', 'b12', 'b13', 'b22', 'b23', 'b33', 'd1', 'd2', 'd3']
    f = Field(names, naux=10)
    f.positive('pi')
    if 'cell' in kind:
        C.cell_setup(f)
    if 'cell2' in kind:
        C.cell_setup(f, 'x')
    if 'quat' in kind:
        C.quat_setup(f)
    if 'ang3' in kind:
        for c, s in (('c1', 's1'), ('c2', 's2'), ('c3', 's3')):
            f.angle(c, s)
    if 'lam' in kind:
        f.positive('lam')
    if 'omega' in kind:
        f.positive('ct', 'st', 'cx', 'cy', 'kap')
        f.angle('ct', 'st')
        f.relation('g2', 1 - f.g['ct'] ** 2 - f.g['g0'] ** 2 - f.g['g1'] ** 2)
        f.angle('cx', 'sx')
        f.angle('cy', 'sy')
    if 'qr' in kind:
        f.positive('b11', 'b22', 'b33')
        for d in ('d1', 'd2', 'd3'):
            f.relation(d, f.R.one)
    ctx = Ctx(f)
    pre = smt.pi_enclosure(ctx.zc)
    if 'cell' in kind:
        pre += C.cell_pre(ctx.zc, f)
    if 'cell2' in kind:
        pre += C.cell_pre(ctx.zc, f, 'x')
    ctx.pre = pre
    return f, ctx


SPEC = {
    # name: (field kinds, builder(f, mod, kap) -> args)      kap = 2*pi for tools, 1 for laue (scales B/g-valued INPUTS)
    'cell_volume': ('cell', lambda f, m, k: (C.cell_of(f),)),
    'form_a_mat': ('cell', lambda f, m, k: (C.cell_of(f),)),
    'form_a_mat_inv': ('cell', lambda f, m, k: (C.cell_of(f),)),
    'form_b_mat': ('cell', lambda f, m, k: (C.cell_of(f),)),
    'cell_invert': ('cell', lambda f, m, k: (C.cell_of(f),)),
    'sintl': ('cell hkl', lambda f, m, k: (C.cell_of(f), [f.var('h'), f.var('k'), f.var('l')])),
    'tth': ('cell hkl lam', lambda f, m, k: (C.cell_of(f), [f.var('h'), f.var('k'), f.var('l')], f.var('lam'))),
    'tth2': ('cell hkl lam quat', lambda f, m, k: (np.dot(C.quat_rot(f), np.dot(_B(f, m), C.oa([f.var('h'), f.var('k'), f.var('l')]))), f.var('lam'))),
    'a_to_cell': ('cell', lambda f, m, k: (_A(f, m),)),
    'b_to_cell': ('cell', lambda f, m, k: (_B(f, m),)),
    'euler_to_u': ('ang3', lambda f, m, k: tuple(Angle(f.var(c), f.var(s), 0, 2) for c, s in (('c1', 's1'), ('c2', 's2'), ('c3', 's3')))),
    'form_omega_mat': ('ang3', lambda f, m, k: (Angle(f.var('c1'), f.var('s1')),)),
    'form_omega_mat_general': ('ang3', lambda f, m, k: tuple(Angle(f.var(c), f.var(s)) for c, s in (('c1', 's1'), ('c2', 's2'), ('c3', 's3')))),
    'quart_to_omega': ('ang3', lambda f, m, k: (Angle.double(Angle(f.var('c1'), f.var('s1'))).in_unit('deg'), Angle(f.var('c2'), f.var('s2')), Angle(f.var('c3'), f.var('s3')))),
    'detect_tilt': ('ang3', lambda f, m, k: tuple(Angle(f.var(c), f.var(s)) for c, s in (('c1', 's1'), ('c2', 's2'), ('c3', 's3')))),
    'rod_to_u': ('vec3', lambda f, m, k: (C.oa([f.var('r1'), f.var('r2'), f.var('r3')]),)),
    'u_to_rod': ('quat', lambda f, m, k: (C.quat_rot(f),)),
    'u_to_euler': ('quat', lambda f, m, k: (C.quat_rot(f),)),
    '_arctan2': ('xy', lambda f, m, k: (f.var('yy'), f.var('xx'))),
    'u_to_ubi': ('cell quat', lambda f, m, k: (C.quat_rot(f), C.cell_of(f))),
    'ubi_to_u': ('cell quat', lambda f, m, k: (_UBI(f, m, k),)),
    'ubi_to_cell': ('cell quat', lambda f, m, k: (_UBI(f, m, k),)),
    'ubi_to_rod': ('cell quat', lambda f, m, k: (_UBI(f, m, k),)),
    'ubi_to_u_and_eps': ('cell cell2 quat', lambda f, m, k: (SYMNP.linalg.inv(np.dot(C.quat_rot(f), _B(f, m, 'x'))) * k, C.cell_of(f))),
    'epsilon_to_b': ('cell eps', lambda f, m, k: ([f.var(n) for n in ('e11', 'e12', 'e13', 'e22', 'e23', 'e33')], C.cell_of(f))),
    'epsilon_to_b_old': ('cell cell2', lambda f, m, k: (_eps_old(f, m), C.cell_of(f))),
    'b_to_epsilon': ('cell cell2', lambda f, m, k: (_B(f, m, 'x'), C.cell_of(f))),
    'b_to_epsilon_old': ('cell cell2', lambda f, m, k: (_B(f, m, 'x'), C.cell_of(f))),
    'find_omega': ('omega', lambda f, m, k: (_g(f, m), _tw(f))),
    'find_omega_general': ('omega', lambda f, m, k: (_g(f, m), _tw(f), _tilt(f, 'x'), _tilt(f, 'y'))),
    'find_omega_quart': ('omega', lambda f, m, k: (_g(f, m), _tw(f), _tilt(f, 'x'), _tilt(f, 'y'))),
    'find_omega_wedge': ('omega', lambda f, m, k: (_g(f, m), _tw(f), _tilt(f, 'y'))),
}


def _A(f, m, p=''):
    with patched(m):
        return m.form_a_mat(C.cell_of(f, p))


def _B(f, m, p=''):
    with patched(m):
        return m.form_b_mat(C.cell_of(f, p))


def _UBI(f, m, k):
    return SYMNP.linalg.inv(np.dot(C.quat_rot(f), _B(f, m))) * k


def _eps_old(f, m):
    from .c13 import sym6
    with patched(m):
        return sym6(np.dot(m.form_a_mat(C.cell_of(f, 'x')), SYMNP.linalg.inv(m.form_a_mat(C.cell_of(f)))))


def _g(f, m):
    # tools asserts |g| = sin(theta); laue renormalises: give laue an arbitrarily scaled copy of the same direction
    g = C.oa([f.var('g0'), f.var('g1'), f.var('g2')])
    return g if m.__name__.endswith('tools') else g * f.var('kap')


def _tw(f):
    return Angle.double(Angle(f.var('ct'), f.var('st'), 0, Fraction(1, 2), True, True))


def _tilt(f, a):
    return Angle(f.var('c' + a), f.var('s' + a), Fraction(-1, 2), Fraction(1, 2), True, True)


def flatten(x):
    if isinstance(x, (tuple, list)):
        out = []
        for y in x:
            out += flatten(y)
        return out
    if isinstance(x, np.ndarray):
        return list(x.flat)
    return [x]


def residuals(a, b, scale):
    fa, fb = flatten(a), flatten(b)
    if len(fa) != len(fb):
        return None
    res = []
    for x, y in zip(fa, fb):
        if isinstance(x, Angle) or isinstance(y, Angle):
            if not (isinstance(x, Angle) and isinstance(y, Angle)) or (x.r, x.p) != (y.r, y.p):
                return None
            res += [x.c - y.c, x.s - y.s]
        else:
            res.append(lift(x) - scale * lift(y))
    return res


def run_unit(u, desc, tier, seed):
    from xfab import tools, laue, checks
    import xfab
    name = desc['fn']
    both, only = paired()
    if name is None:
        u.paths = 1
        u.prove('C14/unpaired', [], z3.BoolVal(True), replay=None, detail='functions present in one module only (reported, not a violation): %s' % only)
        u.samples.append({'paired': both, 'unpaired': only})
        return
    xfab.CHECKS.activated = True
    if name in CONCRETE:
        return run_concrete(u, name, tools, laue)
    if name in ('sysabs', 'sysabs_unique'):
        return run_sysabs(u, name, tools, laue)
    if name == 'ub_to_u_b' or name == 'ubi_to_u_b':
        return run_qr(u, name, tools, laue, checks)
    if name == 'reduce_cell':
        u.paths = 1
        return run_concrete(u, name, tools, laue)
    if name not in SPEC:
        u.add('C14/%s/no-harness' % name, 'inconclusive', 'no differential harness for %s' % name)
        return
    kinds, builder = SPEC[name]
    f, ctx = make_field(kinds)
    zc = ctx.zc
    ktools = 2 * f.var('pi')

    extra = None
    if name == 'find_omega_quart':
        from .c09 import quart_summary       # callee summary, proved equal to the real quart_to_omega in C09 (both modules)
        extra = {'quart_to_omega': quart_summary}

    def body():
        with patched(tools, laue, checks, extra=extra):
            rt = getattr(tools, name)(*builder(f, tools, ktools))
            rl = getattr(laue, name)(*builder(f, laue, lift(1)))
        return rt, rl
    budget = 150 if name == 'u_to_euler' else 64
    leaves, exh = ctx.explore(body, max_paths=budget, max_seconds=150, catch=(ValueError, AssertionError, ZeroDivisionError))
    u.exhaustive = exh
    u.decisions = ctx.decisions
    scale = ktools if name in KAPPA_OUT else lift(1)
    # concrete cross-check at two generic points with real numpy (also exercises the 2*pi convention used above)
    try:
        okn, _txt = numeric(name)
        if not okn:
            u.validated += 1
    except Exception:
        pass
    for li, leaf in enumerate(leaves):
        u.paths += 1
        pre = ctx.base() + leaf['pc']
        tag = '' if len(leaves) == 1 else '/p' + ''.join('T' if d else 'F' for d in leaf['trace'])
        if leaf['exception'] is not None:
            # an exception aborts the joint program: it must come from both modules alike -> run them separately on this path
            u.prove('C14/%s/exceptions-agree%s' % (name, tag), pre, z3.BoolVal(_exc_agree(ctx, leaf, f, name, builder, tools, laue, checks, ktools)), replay=None,
                    detail='%r raised on this path by the joint run' % (leaf['exception'],), timeout=20)
            continue
        rt, rl = leaf['result']
        res = residuals(rt, rl, scale)
        if res is None:
            u.prove('C14/%s/same-shape%s' % (name, tag), pre, z3.BoolVal(False), replay=mk_replay(name, f), detail='results of different shape/kind', timeout=20)
            continue
        u.prove('C14/%s%s' % (name, tag), pre, C.resid_goal(zc, res), replay=mk_replay(name, f),
                detail='tools.%s == %slaue.%s (%d components, %d non-zero residuals)' % (name, '2*pi*' if name in KAPPA_OUT else '', name, len(res), C.nz_count(res)),
                timeout=30, sample=(li == 0))


def _exc_agree(ctx, leaf, f, name, builder, tools, laue, checks, ktools):
    outs = []
    for m, k in ((tools, ktools), (laue, lift(1))):
        ctx.prefix, ctx.pos, ctx.trace, ctx.pc = list(leaf['trace']), 0, [], []
        try:
            with patched(tools, laue, checks):
                getattr(m, name)(*builder(f, m, k))
            outs.append('returned')
        except (ValueError, AssertionError, ZeroDivisionError) as e:
            outs.append(type(e).__name__)
        except BaseException as e:
            outs.append('path-diverged')
    ctx.prefix, ctx.pos, ctx.trace, ctx.pc = [], 0, [], []
    return outs[0] == outs[1] or 'path-diverged' in outs


def run_sysabs(u, name, tools, laue):
    smt.INPROC = True
    from xfab import sg as sgmod
    f = Field(['dummy'], naux=0)
    ctx = Ctx(f)
    H = [zprox.Int('h'), zprox.Int('k'), zprox.Int('l')]
    for no, cc in ((14, 'standard'), (62, 'standard'), (88, 'standard'), (142, 'standard'), (167, 'standard'), (167, 'rhombohedral'), (194, 'standard'), (227, 'standard'), (230, 'standard')):
        s = sgmod.sg(sgno=no, cell_choice=cc)

        def body():
            if name == 'sysabs':
                return tools.sysabs(H, s.syscond, s.crystal_system, s.cell_choice), laue.sysabs(H, s.syscond, s.crystal_system, s.cell_choice)
            return tools.sysabs_unique(H, s.syscond), laue.sysabs_unique(H, s.syscond)
        leaves, exh = ctx.explore(body, max_paths=20000, max_seconds=120)
        bad = 0
        for leaf in leaves:
            u.paths += 1
            if leaf['exception'] is not None or leaf['result'][0] != leaf['result'][1]:
                bad += 1
        u.prove('C14/%s/Sg%d%s' % (name, no, 'r' if cc[0] == 'r' else ''), [], z3.BoolVal(bad == 0), replay=None,
                detail='%d joint paths over all integer hkl: identical return values' % len(leaves), sample=(no == 14))


def run_qr(u, name, tools, laue, checks):
    f, ctx = make_field('quat qr cell' if name == 'ubi_to_u_b' else 'quat qr')
    zc = ctx.zc
    v = f.var
    U0 = C.quat_rot(f)
    ktools = 2 * v('pi')
    if name == 'ub_to_u_b':
        B0 = C.oa([[v('b11'), v('b12'), v('b13')], [0, v('b22'), v('b23')], [0, 0, v('b33')]])
        stub = QRStub(f, U0, B0, ('d1', 'd2', 'd3'))

        def body():
            old = SYMNP.linalg.qr
            SYMNP.linalg.qr = stub
            try:
                with patched(tools, laue, checks):
                    return tools.ub_to_u_b(np.dot(U0, B0)), laue.ub_to_u_b(np.dot(U0, B0))
            finally:
                SYMNP.linalg.qr = old
        scale = lift(1)
    else:
        def body():
            out = []
            for m, k in ((tools, ktools), (laue, lift(1))):
                B = _B(f, m)
                stub = QRStub(f, U0, B, ('d1', 'd2', 'd3'))
                old = SYMNP.linalg.qr
                SYMNP.linalg.qr = stub
                try:
                    with patched(tools, laue, checks):
                        out.append(m.ubi_to_u_b(SYMNP.linalg.inv(np.dot(U0, B)) * k))
                finally:
                    SYMNP.linalg.qr = old
            return out[0], out[1]
        scale = None
    leaves, exh = ctx.explore(body, max_paths=128, max_seconds=200)
    u.exhaustive = exh
    for leaf in leaves:
        u.paths += 1
        pre = ctx.base() + leaf['pc']
        tag = '/p' + ''.join('T' if d else 'F' for d in leaf['trace'])
        if leaf['exception'] is not None:
            u.prove('C14/%s/no-exception%s' % (name, tag), pre, z3.BoolVal(False), replay=None, detail=repr(leaf['exception']), timeout=20)
            continue
        (Ut, Bt), (Ul, Bl) = leaf['result']
        res = [lift(x) - lift(y) for x, y in zip(Ut.flat, Ul.flat)]
        kb = ktools if name == 'ubi_to_u_b' else lift(1)
        res += [lift(x) - kb * lift(y) for x, y in zip(Bt.flat, Bl.flat)]
        u.prove('C14/%s%s' % (name, tag), pre, C.resid_goal(zc, res), replay=None, detail='same U, B%s' % (' (times 2*pi)' if name == 'ubi_to_u_b' else ''), timeout=30)


def run_concrete(u, name, tools, laue):
    """enumeration (not a solver verdict): identical arrays on a concrete sample"""
    from xfab import sg as sgmod
    from .c05 import CELLS
    bad = []
    n = 0
    if name == 'reduce_cell':
        for cell in ([3, 4, 5, 80, 95, 100], [4.05, 4.05, 4.05, 60, 60, 60], [5.1, 6.2, 7.3, 90, 104, 90], [7, 7, 12, 90, 90, 120]):
            n += 1
            a, b = tools.reduce_cell(cell), laue.reduce_cell(cell)
            if not np.allclose(a, b, rtol=1e-12, atol=1e-12):
                bad.append('reduce_cell(%s): %s vs %s' % (cell, a, b))
    else:
        for no, cc in ((1, 'standard'), (2, 'standard'), (14, 'standard'), (62, 'standard'), (88, 'standard'), (136, 'standard'), (148, 'standard'), (148, 'rhombohedral'),
                       (167, 'rhombohedral'), (176, 'standard'), (194, 'standard'), (205, 'standard'), (227, 'standard')):
            s = sgmod.sg(sgno=no, cell_choice=cc)
            base = CELLS['rhombohedral' if s.cell_choice == 'rhombohedral' else s.crystal_system]
            for cell in (base, [x * (1.37 if i < 3 else 1) for i, x in enumerate(base)], ([6., 6., 6., 100., 100., 100.] if s.cell_choice == 'rhombohedral' else base)):
                for hi in (0.34, 0.45):
                    n += 1
                    np.random.seed(3)
                    if name == 'genhkl_all':
                        a = tools.genhkl_all(cell, 0.05, hi, sgno=no, cell_choice=cc, output_stl=True)
                        np.random.seed(3)
                        b = laue.genhkl_all(cell, 0.05, hi, sgno=no, cell_choice=cc, output_stl=True)
                    elif name == 'genhkl_unique':
                        a = tools.genhkl_unique(cell, 0.05, hi, sgno=no, cell_choice=cc, output_stl=True)
                        b = laue.genhkl_unique(cell, 0.05, hi, sgno=no, cell_choice=cc, output_stl=True)
                    elif name == 'genhkl_base':
                        a = tools.genhkl_base(cell, s.syscond, 0.05, hi, s.crystal_system, s.Laue, s.cell_choice, True)
                        b = laue.genhkl_base(cell, s.syscond, 0.05, hi, s.crystal_system, s.Laue, s.cell_choice, True)
                    else:
                        a = tools.genhkl(cell, s.syscond, 0.05, hi, s.crystal_system, True)
                        b = laue.genhkl(cell, s.syscond, 0.05, hi, s.crystal_system, True)
                    a, b = np.asarray(a, float), np.asarray(b, float)
                    if a.shape != b.shape or not np.allclose(a, b, rtol=1e-12, atol=1e-12):
                        bad.append('%s Sg%d %s cell %s sintlmax %s: %s vs %s rows' % (name, no, cc, cell, hi, a.shape, b.shape))
    u.paths = 1
    u.prove('C14/%s/concrete-sample' % name, [], z3.BoolVal(not bad), replay=lambda m: (True, {'name': name, 'kind': 'concrete'}, '; '.join(bad[:3])),
            detail='%d concrete calls give identical arrays in both modules (enumeration; solver adds nothing here)' % n)


def mk_replay(name, f=None):
    def replay(model):
        # differential witnesses are confirmed by the property-specific replays of C01-C03/C09/C13; here: run both real functions at the
        # cell of the solver model (a difference may live on special angles only) and at a generic float point
        mcell = None
        if f is not None and model:
            try:
                mcell = [float(x) for x in C.cell_floats(C.env_from_model(f, model))]
                if not all(math.isfinite(x) for x in mcell):
                    mcell = None
            except Exception:
                mcell = None
        if mcell is not None:
            try:
                ok, text = numeric(name, mcell)
            except Exception:
                ok, text = False, ''
            if ok:
                return ok, {'name': name, 'kind': 'model-cell', 'cell': mcell}, text
        ok, text = numeric(name)
        return ok, {'name': name, 'kind': 'generic-point'}, text
    return replay


def numeric(name, cell=None):
    from xfab import tools, laue
    import xfab
    xfab.CHECKS.activated = True
    cell = list(cell) if cell is not None else [3.1, 4.2, 5.3, 81., 96., 101.]
    cell2 = [3.15, 4.1, 5.35, 82., 95., 100.5]
    from .c02 import rot_from_quat
    cands = []
    for q in ([0.5, 0.3, -0.4, 0.7], [0.1, -0.2, 0.3, 0.9]):
        U = rot_from_quat(np.array(q) / np.linalg.norm(q))
        th = 0.31
        g = np.array([0.12, -0.21, 0.0])
        g[2] = math.sqrt(max(math.sin(th) ** 2 - g[0] ** 2 - g[1] ** 2, 0))
        args = {
            'cell_volume': ((cell,), (cell,)), 'form_a_mat': ((cell,), (cell,)), 'form_a_mat_inv': ((cell,), (cell,)), 'form_b_mat': ((cell,), (cell,)), 'cell_invert': ((cell,), (cell,)),
            'sintl': ((cell, [1, -2, 3]),) * 2, 'tth': ((cell, [1, -2, 3], 0.5),) * 2,
            'tth2': ((U @ tools.form_b_mat(cell) @ np.array([1., -2, 3]), 0.5), (U @ laue.form_b_mat(cell) @ np.array([1., -2, 3]), 0.5)),
            'a_to_cell': ((tools.form_a_mat(cell),),) * 2, 'b_to_cell': ((tools.form_b_mat(cell),), (laue.form_b_mat(cell),)),
            'euler_to_u': ((0.3, 1.1, 2.5),) * 2, 'form_omega_mat': ((0.7,),) * 2, 'form_omega_mat_general': ((0.7, 0.1, -0.2),) * 2, 'quart_to_omega': ((40., 0.1, -0.2),) * 2,
            'detect_tilt': ((0.1, -0.2, 0.3),) * 2, 'rod_to_u': (([0.1, -0.4, 0.25],),) * 2, 'u_to_rod': ((U,),) * 2, 'u_to_euler': ((U,),) * 2, '_arctan2': ((0.3, -0.2),) * 2,
            'u_to_ubi': ((U, cell),) * 2, 'ubi_to_u': ((tools.u_to_ubi(U, cell),),) * 2, 'ubi_to_cell': ((tools.u_to_ubi(U, cell),),) * 2, 'ubi_to_rod': ((tools.u_to_ubi(U, cell),),) * 2,
            'ubi_to_u_and_eps': ((tools.u_to_ubi(U, cell2), cell),) * 2,
            'epsilon_to_b': (([0.01, -0.02, 0.03, 0.02, 0.01, -0.01], cell),) * 2,
            'epsilon_to_b_old': (([0.01, -0.02, 0.03, 0.02, 0.01, -0.01], cell),) * 2,
            'b_to_epsilon': ((tools.form_b_mat(cell2), cell), (laue.form_b_mat(cell2), cell)), 'b_to_epsilon_old': ((tools.form_b_mat(cell2), cell), (laue.form_b_mat(cell2), cell)),
            'find_omega': ((g, 2 * th), (3.3 * g, 2 * th)), 'find_omega_general': ((g, 2 * th, 0.1, -0.2), (3.3 * g, 2 * th, 0.1, -0.2)),
            'find_omega_quart': ((g, 2 * th, 0.1, -0.2), (3.3 * g, 2 * th, 0.1, -0.2)), 'find_omega_wedge': ((g, 2 * th, -0.2), (3.3 * g, 2 * th, -0.2)),
        }
        if name not in args:
            return False, 'no concrete point for %s' % name
        at, al = args[name]
        try:
            rt = getattr(tools, name)(*at)
            rl = getattr(laue, name)(*al)
        except Exception as e:
            return True, '%s raised %r' % (name, e)
        ft = np.concatenate([np.ravel(np.asarray(x, float)) for x in (rt if isinstance(rt, tuple) else (rt,))])
        fl = np.concatenate([np.ravel(np.asarray(x, float)) for x in (rl if isinstance(rl, tuple) else (rl,))])
        sc = 2 * math.pi if name in KAPPA_OUT else 1.0
        if ft.shape != fl.shape or not np.allclose(ft, sc * fl, rtol=1e-8, atol=1e-9):
            return True, 'tools.%s=%s vs laue.%s=%s' % (name, np.round(ft, 7).tolist()[:6], name, np.round(fl, 7).tolist()[:6])
    return False, 'modules agree at the generic points'


def replay(rec):
    r = rec['replay']
    if r.get('kind') == 'model-cell':
        return numeric(r['name'], r['cell'])
    if r.get('kind') == 'concrete':
        from vengine.core import Unit
        from xfab import tools, laue
        u = Unit('replay')
        run_concrete(u, r['name'], tools, laue)
        return u.results[0]['status'] != 'discharged', u.results[0]['detail']
    return numeric(r['name'])
