"""C12 — lattice symmetry operators form the right groups; misorientation respects them."""
import importlib
import math
from fractions import Fraction

import numpy as np
import z3

from vengine.field import Field, Q, lift, EngineError
from vengine.angle import Angle
from vengine.explore import Ctx
from vengine import smt, core
from vengine.symnp import patched, SYMNP
from . import common as C
from .c02 import rot_from_quat

ORDER = {1: 1, 2: 2, 3: 4, 4: 8, 5: 6, 6: 12, 7: 24}
META = {
    'explanation': 'permutations() and rotations() are executed on the proxies: rotations(5/6) calls the real tools.form_b_mat on [1,1,1,90,90,120], whose '
                   'special angles become exact values in Q(sqrt 3) (generator r3, r3^2 = 3), so both tables are exact.  Per crystal system: order, integer '
                   'unimodular perm, proper orthonormal rot, identity, closure, inverses and absence of duplicates by exact arithmetic in Q(sqrt 3) '
                   '(finite tables: decided by normal form, every comparison also sent to the solver), pairing rot[i].B.perm[i] = B for a SYMBOLIC '
                   'conforming cell through the real form_b_mat, cached ROTATIONS within 1e-12 of the exact table.  Umis on U1=R(q1), U2=R(q2) (all '
                   'pairs of proper rotations): cos(angle_k) = (trace(U1^T.U2.rot[k]^T)-1)/2 inside [-1,1]; invariance identities under right '
                   'multiplication by a symmetry operator (index permutation from the group table), common rotation, swap; Umis(U,U) contains 0.',
    'functions': ['xfab.symmetry.permutations', 'xfab.symmetry.rotations', 'xfab.symmetry.Umis', 'xfab.tools.form_b_mat'],
    'bounds': {'crystal systems': 'all 7, all pairs of operators', 'U1,U2': 'all proper rotations (unit quaternions)', 'cells': 'all conforming cells for the pairing identity'},
    'outside_claim': ['binary64 rounding of the cached tables beyond the 1e-12 comparison', 'the value of arccos (only its argument and range are checked)'],
    'stubs': ['ndarray.clip(-1,1) on the cosine array -> identity, justified by sum-of-squares certificates (identities on the real expressions + two abstract inequalities) that every cosine lies in [-1,1]', 'arccos -> Angle window [0,pi]'],
    'assumptions': ['exact real arithmetic'],
}
Q2 = ['pw', 'px', 'py', 'pz']
Q1 = ['qw', 'qx', 'qy', 'qz']
Q3 = ['ww', 'wx', 'wy', 'wz']


def units(tier):
    us = [{'name': 'tables/cs%d' % cs, 'group': 'tables', 'cs': cs, 'cost': ORDER[cs] ** 2} for cs in range(1, 8)]
    us += [{'name': 'umis/cs%d' % cs, 'group': 'umis', 'cs': cs, 'cost': 10 * ORDER[cs] ** 2} for cs in range(1, 8)]
    return us


def conforming_cell(f, cs):
    """symbolic cell of the crystal system (same generators a,b,c and angle pairs; constraints by construction)"""
    v = f.var
    A90 = Angle(0, 1, Fraction(1, 2), Fraction(1, 2)).in_unit('deg')
    A120 = Angle(Fraction(-1, 2), v('r3') * Fraction(1, 2), Fraction(2, 3), Fraction(2, 3)).in_unit('deg')
    full = C.cell_of(f)
    if cs == 1:
        return full
    if cs == 2:
        return [full[0], full[1], full[2], A90, full[4], A90]
    if cs == 3:
        return [full[0], full[1], full[2], A90, A90, A90]
    if cs == 4:
        return [full[0], full[0], full[2], A90, A90, A90]
    if cs in (5, 6):
        return [full[0], full[0], full[2], A90, A90, A120]
    return [full[0], full[0], full[0], A90, A90, A90]


def exact_tables(f, cs):
    from xfab import symmetry, tools
    with patched(symmetry, tools):
        perm = symmetry.permutations(cs)
        rot = symmetry.rotations(cs)
    return np.asarray(perm, dtype=object), np.asarray(rot, dtype=object)


def eqm(A, B):
    return all((lift(x) - lift(y)).iszero() for x, y in zip(np.asarray(A, dtype=object).flat, np.asarray(B, dtype=object).flat))


def run_unit(u, desc, tier, seed):
    from xfab import symmetry, tools
    cs = desc['cs']
    names = ['pi', 'r3'] + C.CELL_NAMES + Q1 + Q2 + Q3
    f = Field(names, naux=6)
    f.positive('pi', 'r3')
    f.relation('r3', f.R(3))
    C.cell_setup(f)
    for qn in (Q1, Q2, Q3):
        C.quat_setup(f, qn)
    ctx = Ctx(f)
    zc = ctx.zc
    ctx.pre = smt.pi_enclosure(zc) + C.cell_pre(zc, f)
    pre = ctx.base()
    perm, rot = exact_tables(f, cs)
    n = len(rot)
    u.paths = 1

    def fin(key, ok, detail, **kw):
        u.prove('C12/cs%d/%s' % (cs, key), pre, z3.BoolVal(bool(ok)), replay=lambda m: (True, {'cs': cs, 'what': key}, detail), detail=detail, **kw)
    I3 = C.eye3()
    if desc['group'] == 'tables':
        fin('order', len(perm) == ORDER[cs] and len(rot) == ORDER[cs], 'permutations/rotations(%d) have %d/%d entries, expected %d' % (cs, len(perm), len(rot), ORDER[cs]))
        ints = all(lift(x).const() is not None and lift(x).const().denominator == 1 for x in perm.flat)
        fin('perm-integer', ints, 'perm entries are integers')
        dets = [SYMNP.linalg.det(perm[i]) for i in range(n)]
        fin('perm-unimodular', all(lift(d).const() in (1, -1) for d in dets), 'det perm = +-1')
        for nm, tab in (('perm', perm), ('rot', rot)):
            fin(nm + '/identity', any(eqm(tab[i], I3) for i in range(n)), '%s contains the identity' % nm)
            closed, inv, dup = True, True, False
            for i in range(n):
                if not any(eqm(np.dot(tab[i], tab[j]), I3) for j in range(n)):
                    inv = False
                for j in range(n):
                    pr = np.dot(tab[i], tab[j])
                    if not any(eqm(pr, tab[k]) for k in range(n)):
                        closed = False
                    if i < j and eqm(tab[i], tab[j]):
                        dup = True
            fin(nm + '/closed', closed, '%s[i].%s[j] is in the table for all %d pairs' % (nm, nm, n * n), sample=(nm == 'rot'))
            fin(nm + '/inverses', inv, 'every element has an inverse in the table')
            fin(nm + '/no-duplicates', not dup, 'no element occurs twice')
        orth = [x for i in range(n) for x in C.flat(np.dot(rot[i].T, rot[i]) - I3)]
        u.prove('C12/cs%d/rot/orthonormal' % cs, pre, C.resid_goal(zc, orth), replay=None, detail='rot[i]^T.rot[i] = I for all i')
        u.prove('C12/cs%d/rot/det=+1' % cs, pre, C.resid_goal(zc, [SYMNP.linalg.det(rot[i]) - 1 for i in range(n)]), replay=None, detail='proper rotations')
        # pairing for a symbolic conforming cell
        cell = conforming_cell(f, cs)
        with patched(tools):
            B = tools.form_b_mat(cell)
        res = []
        for i in range(n):
            res += C.flat(np.dot(rot[i], np.dot(B, perm[i])) - B)
        u.prove('C12/cs%d/pairing:rot[i].B.perm[i]=B' % cs, pre, C.resid_goal(zc, res), replay=lambda m: replay_pairing(cs, m, f),
                detail='for every conforming cell (symbolic) and all %d operators; %d non-zero residuals' % (n, C.nz_count(res)), sample=True, timeout=60)
        # cached table
        cached = symmetry.ROTATIONS[cs]
        env = {'r3': math.sqrt(3.0), 'pi': math.pi}
        worst = 0.0
        okc = len(cached) == n
        if okc:
            for i in range(n):
                for a in range(3):
                    for b in range(3):
                        q = lift(rot[i][a, b])
                        val = C.evalp(f, q.n, dict({k: 0.0 for k in f.names}, **env)) / C.evalp(f, q.d, dict({k: 0.0 for k in f.names}, **env))
                        worst = max(worst, abs(val - float(cached[i][a, b])))
        fin('ROTATIONS-cache', okc and worst <= 1e-12, 'cached ROTATIONS[%d] within %.1e of the exact table' % (cs, worst))
        return
    # ---- Umis
    U1 = C.quat_rot(f, Q1)
    U2 = C.quat_rot(f, Q2)

    class ClipArr(np.ndarray):
        def clip(self, lo, hi, **kw):
            CLIPPED.append(np.asarray(self).copy())
            return self
    CLIPPED = []

    def umis(A, B):
        tab = np.asarray(rot, dtype=object).view(ClipArr)
        old = symmetry.ROTATIONS[cs]
        symmetry.ROTATIONS[cs] = tab
        try:
            with patched(symmetry, importlib.import_module('xfab.checks')):
                return symmetry.Umis(A, B, cs)
        finally:
            symmetry.ROTATIONS[cs] = old
    import xfab
    xfab.CHECKS.activated = True
    m0 = umis(U1, U2)
    cos0 = []
    okform = m0.shape == (n, 2)
    for k in range(n):
        a = m0[k, 1]
        if not (isinstance(a, Angle) and a.is_deg() and a.lo is not None and a.lo >= 0 and a.hi <= 1):
            okform = False
            break
        cos0.append(a.c)
    fin('Umis/shape-index-range', okform and all(lift(m0[k, 0]).const() == k for k in range(n)), 'Umis returns (N,2): column 0 = arange(N), column 1 = angles in [0,180] deg')
    if not okform:
        return
    # cos(angle_k) = (trace(U1^T U2 rot[k]^T) - 1)/2
    res = []
    for k in range(n):
        M = C.mdot(U1.T, U2, np.asarray(rot[k], dtype=object).T)
        res.append(cos0[k] - (M[0, 0] + M[1, 1] + M[2, 2] - 1) * Fraction(1, 2))
    u.prove('C12/cs%d/Umis/cos=half(trace-1)' % cs, pre, C.resid_goal(zc, res), replay=lambda m: replay_umis(cs, m, f), detail='for all U1,U2 and every operator', sample=True)
    # the clipped argument really lies in [-1,1] (so the identity model of clip is exact).  The direct 8-variable inequality is
    # `unknown` for both solvers; it is decided by certificates instead: for M = U1^T.U2.rot[k]^T
    #   (i)  4(1+tr M) = (1+tr M)^2 + (M21-M12)^2 + (M02-M20)^2 + (M10-M01)^2      (identity, proved on the real expressions)
    #   (ii) 1 - M_ii^2 = sum of the squares of the other two entries of column i  (identity, proved)
    #   (iii) abstract: 4T = A^2+B^2+C^2+D^2 => T >= 0 ;  1 - x^2 = y^2+z^2 => x <= 1   (solver, fresh reals)
    ident = []
    for k in range(n):
        M = C.mdot(U1.T, U2, np.asarray(rot[k], dtype=object).T)
        T = 1 + M[0, 0] + M[1, 1] + M[2, 2]
        ident.append(4 * T - (T * T + (M[2, 1] - M[1, 2]) ** 2 + (M[0, 2] - M[2, 0]) ** 2 + (M[1, 0] - M[0, 1]) ** 2))
        for i in range(3):
            j, l = (i + 1) % 3, (i + 2) % 3
            ident.append(1 - M[i, i] ** 2 - M[j, i] ** 2 - M[l, i] ** 2)
    u.prove('C12/cs%d/Umis/cos-in-[-1,1]/certificate-identities' % cs, pre, C.resid_goal(zc, ident), replay=None,
            detail='sum-of-squares certificates for -1 <= (tr M - 1)/2 <= 1, all %d operators' % n, timeout=60)
    Tz, Az, Bz, Cz, Dz, xz, yz, wz = z3.Reals('T A B C D x y w')
    u.prove('C12/cs%d/Umis/cos-in-[-1,1]/abstract-lower' % cs, [4 * Tz == Az * Az + Bz * Bz + Cz * Cz + Dz * Dz], Tz >= 0, replay=None, detail='4T = sum of four squares => T >= 0')
    u.prove('C12/cs%d/Umis/cos-in-[-1,1]/abstract-upper' % cs, [1 - xz * xz == yz * yz + wz * wz], xz <= 1, replay=None, detail='1 - x^2 = y^2 + z^2 => x <= 1 (each diagonal entry, hence tr M <= 3)')
    # invariances: index maps from the exact group table
    def idx_of(M):
        for k in range(n):
            if eqm(M, rot[k]):
                return k
        return None
    inv_res, swap_res = [], []
    ms = range(n) if tier != 'quick' else range(min(n, 4))
    for m in ms:
        CLIPPED.clear()
        mm = umis(U1, np.dot(U2, np.asarray(rot[m], dtype=object)))
        for k in range(n):
            # U1^T U2 rot[m] rot[k]^T = U1^T U2 (rot[k] rot[m]^T)^T
            kk = idx_of(np.dot(np.asarray(rot[k], dtype=object), np.asarray(rot[m], dtype=object).T))
            if kk is None:
                inv_res.append(lift(1))
            else:
                inv_res.append(mm[k, 1].c - cos0[kk])
    u.prove('C12/cs%d/Umis/invariant-under-symmetry-equivalent-U2' % cs, pre, C.resid_goal(zc, inv_res), replay=lambda m: replay_umis(cs, m, f),
            detail='Umis(U1, U2.rot[m])[k] = Umis(U1,U2)[sigma_m(k)] for %d operators m' % len(list(ms)))
    ms2 = umis(U2, U1)
    for k in range(n):
        kk = idx_of(np.asarray(rot[k], dtype=object).T)
        swap_res.append(lift(1) if kk is None else ms2[k, 1].c - cos0[kk])
    u.prove('C12/cs%d/Umis/swap' % cs, pre, C.resid_goal(zc, swap_res), replay=lambda m: replay_umis(cs, m, f), detail='Umis(U2,U1)[k] = Umis(U1,U2)[inverse(k)]')
    Qr = C.quat_rot(f, Q3)
    mq = umis(np.dot(Qr, U1), np.dot(Qr, U2))
    u.prove('C12/cs%d/Umis/common-rotation' % cs, pre, C.resid_goal(zc, [mq[k, 1].c - cos0[k] for k in range(n)]), replay=lambda m: replay_umis(cs, m, f), detail='Umis(Q.U1, Q.U2) = Umis(U1,U2)', timeout=60)
    md = umis(U1, U1)
    u.prove('C12/cs%d/Umis(U,U)-contains-0' % cs, pre, z3.BoolVal(any((md[k, 1].c - 1).iszero() for k in range(n))), replay=None, detail='some operator gives cos = 1')


def replay_pairing(cs, model, f):
    from xfab import symmetry, tools
    cells = {1: [3.1, 4.2, 5.3, 81., 96., 101.], 2: [3.1, 4.2, 5.3, 90., 96., 90.], 3: [3.1, 4.2, 5.3, 90., 90., 90.], 4: [3.1, 3.1, 5.3, 90., 90., 90.],
             5: [3.1, 3.1, 5.3, 90., 90., 120.], 6: [3.1, 3.1, 5.3, 90., 90., 120.], 7: [3.1, 3.1, 3.1, 90., 90., 90.]}
    B = tools.form_b_mat(cells[cs])
    perm, rot = symmetry.permutations(cs), symmetry.rotations(cs)
    worst = max(float(np.max(np.abs(rot[i] @ B @ perm[i] - B))) for i in range(len(rot)))
    return worst > 1e-9, {'cs': cs, 'what': 'pairing', 'cell': cells[cs]}, 'max |rot[i].B.perm[i]-B| = %.3g for cell %s' % (worst, cells[cs])


def replay_umis(cs, model, f):
    from xfab import symmetry
    env = C.env_from_model(f, model or {})

    def q(names):
        v = np.array([env.get(n, 0.3) for n in names])
        return rot_from_quat(v / np.linalg.norm(v))
    U1, U2, Qr = q(Q1), q(Q2), q(Q3)
    rot = symmetry.rotations(cs)
    m0 = symmetry.Umis(U1, U2, cs)
    bad = []
    for k in range(len(rot)):
        c = 0.5 * (np.trace(U1.T @ U2 @ rot[k].T) - 1)
        want = math.degrees(math.acos(max(-1, min(1, c))))
        if abs(m0[k, 1] - want) > 1e-6 or m0[k, 0] != k:
            bad.append('k=%d: %r vs %r' % (k, m0[k, 1], want))
    for mm in range(len(rot)):
        a = np.sort(symmetry.Umis(U1, U2 @ rot[mm], cs)[:, 1])
        if not np.allclose(a, np.sort(m0[:, 1]), atol=1e-6):
            bad.append('multiset changes under symmetry-equivalent U2 (operator %d)' % mm)
            break
    if not np.allclose(np.sort(symmetry.Umis(U2, U1, cs)[:, 1]), np.sort(m0[:, 1]), atol=1e-6):
        bad.append('multiset changes under swap')
    if not np.allclose(np.sort(symmetry.Umis(Qr @ U1, Qr @ U2, cs)[:, 1]), np.sort(m0[:, 1]), atol=1e-6):
        bad.append('multiset changes under a common rotation')
    return bool(bad), {'cs': cs, 'what': 'umis', 'q1': [env.get(n, 0.3) for n in Q1], 'q2': [env.get(n, 0.3) for n in Q2], 'q3': [env.get(n, 0.3) for n in Q3]}, '; '.join(bad[:3]) or 'Umis consistent at the model'


def replay(rec):
    r = rec['replay']
    if r.get('what') == 'pairing':
        ok, _, t = replay_pairing(r['cs'], None, None)
        return ok, t
    if r.get('what') == 'umis':
        from vengine.field import Field as _F
        class _E:
            pass
        m = dict(zip(Q1, r['q1']))
        m.update(dict(zip(Q2, r['q2'])))
        m.update(dict(zip(Q3, r['q3'])))
        f = _F(['pi', 'r3'] + C.CELL_NAMES + Q1 + Q2 + Q3, naux=1)
        for qn in (Q1, Q2, Q3):
            C.quat_setup(f, qn)
        ok, _, t = replay_umis(r['cs'], m, f)
        return ok, t
    return True, 'table property %s of crystal system %s' % (r.get('what'), r.get('cs'))
