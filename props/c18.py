"""C18 — reduce_cell returns a primitive cell of the same lattice (both modules)."""
import importlib
import itertools
import math
from fractions import Fraction

import numpy as np
import z3

from vengine.field import Field, Q, lift, EngineError
from vengine.angle import Angle, cos_const
from vengine.explore import Ctx
from vengine import smt, core
from vengine.symnp import patched, SYMNP
from . import common as C

META = {
    'explanation': 'The real reduce_cell (search range uvw=1: 8 candidate vectors; the final a_to_cell step is independent of uvw) runs on a symbolic cell that ranges over a box around a concrete cell '
                   '(lengths +-0.5%, angle cosines +-0.004): numpy.argsort becomes a merge sort whose comparisons of symbolic norms are path decisions '
                   '(decided by the solver for the whole box, forking where both orders occur), the coplanarity tests fork likewise.  At every leaf the '
                   'three selected integer combinations are concrete: det = +-1, returned metric = P^T.G.P (lengths and cosines), first vector no longer '
                   'than any of the non-zero candidates, second no longer than any candidate not collinear with the first.  Boxes: three reduced cells and '
                   'two skewed settings whose reduced vectors need coefficients (2,-2,1).  A concrete call with uvw=2 precedes each run (history independence); thorough tier: additionally uvw=2 symbolic after a concrete call with uvw=1 on a box whose shortest vector is outside the range of uvw=1 (63 candidates: budgeted, inconclusive when the wall limit is hit).',
    'functions': ['xfab.tools.reduce_cell', 'xfab.laue.reduce_cell', 'xfab.tools.form_a_mat', 'xfab.tools.a_to_cell'],
    'bounds': {'cells': 'five boxes (relative half-width 0.5% in lengths, 0.004 in cosines)', 'search range': 'uvw=1 (indices -1..0, 7 non-zero candidates); the default uvw=3 is outside the bound'},
    'outside_claim': ['the default search range uvw=3 (sorting 216 symbolic norms)', 'cells outside the boxes', 'third vector minimality (only non-coplanarity and unimodularity are checked for it)', 'binary64 rounding'],
    'stubs': ['norm of a candidate lattice vector A.q -> sqrt(q^T.G.q) (summary justified by the C01 lemma A^T.A = G)', 'numpy.argsort -> merge sort with solver-decided comparisons', 'linalg.norm, cross, abs on proxies'],
    'assumptions': ['exact real arithmetic'],
}
UVW = 1        # search range explored symbolically (the default 3 sorts 216 symbolic norms: out of reach, see DESIGN)
BOXES = {
    'triclinic-reduced': [3.0, 4.0, 5.0, 80.0, 95.0, 100.0],
    'near-orthorhombic': [4.0, 5.0, 6.0, 88.0, 91.0, 92.0],
    'monoclinic': [5.1, 6.2, 7.3, 90.0, 104.0, 90.0],
}
SKEW = {'skew-from-cubic': ([4.05, 4.05, 4.05, 90.0, 90.0, 90.0], [[1, 0, 0], [2, 1, 0], [2, 2, 1]]),
        'skew-from-triclinic': ([3.0, 4.0, 5.0, 80.0, 95.0, 100.0], [[1, 0, 0], [1, 1, 0], [2, -2, 1]])}


def skew_cell(base, P):
    from xfab import tools
    A = tools.form_a_mat(base)
    return [float(x) for x in tools.a_to_cell(A @ np.array(P, float).T)]


THOROUGH_BOXES = {'fcc-primitive': [4.0, 4.0, 4.0, 60.0, 60.0, 60.0], 'hexagonal': [3.0, 3.0, 5.0, 90.0, 90.0, 120.0], 'acute-gamma': [4.0, 4.2, 6.5, 85.0, 95.0, 55.0]}


def units(tier):
    us = []
    # (the fcc and hexagonal boxes were tried in the thorough tier: with uvw=1 their reduced basis is not within the search range,
    #  i.e. outside the property's quantifier; they are not used)
    for m in ('tools', 'laue'):
        for b in list(BOXES):
            us.append({'name': '%s/%s' % (m, b), 'module': m, 'box': b, 'cost': 5})
        if tier != 'quick':
            # history with a LARGER range than the preceding call: concrete call with uvw=1, then the symbolic run with uvw=2 (63 candidates)
            # on a box whose shortest vector (1,-1,0) is outside the range of uvw=1
            us.append({'name': '%s/acute-gamma@uvw2-after-uvw1' % m, 'module': m, 'box': 'acute-gamma', 'uvw': 2, 'prime': 1, 'cost': 50})
    return us


def merge_argsort(keys):
    """stable merge sort of symbolic keys; comparisons go through Q.__lt__ -> path decisions"""
    idx = list(range(len(keys)))

    def ms(a):
        if len(a) <= 1:
            return a
        m = len(a) // 2
        L, R = ms(a[:m]), ms(a[m:])
        out = []
        i = j = 0
        while i < len(L) and j < len(R):
            if bool(keys[R[j]] < keys[L[i]]):
                out.append(R[j])
                j += 1
            else:
                out.append(L[i])
                i += 1
        return out + L[i:] + R[j:]
    return np.array(ms(idx))


class NormKey:
    """norm of a lattice vector known through its square (avoids 216 radicals): ordered by the squares"""

    def __init__(self, sq):
        self.sq = lift(sq)

    def __lt__(self, o):
        return self.sq < o.sq

    def __gt__(self, o):
        return o.sq < self.sq

    def __truediv__(self, o):
        raise EngineError('NormKey division')

    def __rtruediv__(self, o):
        # dist = dot(kryds, tmp)/norm(kryds): only its sign against 1e-5 matters -> keep as ratio object
        return Ratio(lift(o), self)


class Ratio:
    def __init__(self, num, den):
        self.num, self.den = num, den

    def __gt__(self, o):
        # num/|v| > t  (t > 0)  <=>  num > 0 and num^2 > t^2 |v|^2
        t = lift(o)
        return (self.num > 0) & (self.num * self.num > t * t * self.den.sq)


def run_unit(u, desc, tier, seed):
    modname, box = desc['module'], desc['box']
    UVW = desc.get('uvw', globals()['UVW'])
    PRIME = desc.get('prime', 2)
    mod = importlib.import_module('xfab.' + modname)
    if box in THOROUGH_BOXES:
        c0 = THOROUGH_BOXES[box]
    elif box in BOXES:
        c0 = BOXES[box]
    else:
        c0 = skew_cell(*SKEW[box])
    f = Field(C.CELL_NAMES + ['pi'], naux=60)
    C.cell_setup(f)
    f.positive('pi')
    ctx = Ctx(f, feas_timeout=4.0)
    zc = ctx.zc
    v = f.var
    pre = smt.pi_enclosure(zc)
    for nm, val in zip(('a', 'b', 'c'), c0[:3]):
        lo, hi = Fraction(repr(val)) * Fraction(995, 1000), Fraction(repr(val)) * Fraction(1005, 1000)
        pre += [zc.cmp0(v(nm) - lo, '>='), zc.cmp0(v(nm) - hi, '<=')]
    for nm, ang in zip(('cal', 'cbe', 'cga'), c0[3:]):
        cc = Fraction(repr(round(math.cos(math.radians(ang)), 6)))
        pre += [zc.cmp0(v(nm) - (cc - Fraction(4, 1000)), '>='), zc.cmp0(v(nm) - (cc + Fraction(4, 1000)), '<=')]
    ctx.pre = pre
    cell = C.cell_of(f)
    # every cell of the box is a valid cell in the sense of the property (Gram determinant >= 0.02): proved, not assumed
    u.prove('C18/%s.reduce_cell/box-is-valid/%s' % (modname, box), ctx.base(), C.cell_pre(zc, f)[0], replay=None, detail='Gram determinant >= 0.02 on the whole box', timeout=60)
    # history independence: a legal concrete call with another search range first
    try:
        mod.reduce_cell(list(c0), uvw=PRIME)
    except Exception:
        pass

    Gm = C.metric(f)
    LAT = {}

    ROWS = {}

    class RecArr(np.ndarray):
        def __setitem__(self, key, value):
            if isinstance(key, (int, np.integer)):
                e = LAT.get(id(value))
                ROWS[int(key)] = e[1] if (e is not None and e[0] is value) else None
            np.ndarray.__setitem__(self, key, value)

    class NPX:
        def __getattr__(self, k):
            return getattr(SYMNP, k)

        @staticmethod
        def zeros(shape, dtype=None):
            a = SYMNP.zeros(shape)
            if tuple(np.atleast_1d(shape)) == (3, 3):
                ROWS.clear()
                return a.view(RecArr)         # red_a_mat: remember which lattice combination is stored in each row
            return a

        @staticmethod
        def dot(a, b):
            r = SYMNP.dot(a, b)
            bb = np.asarray(b, dtype=object)
            if bb.shape == (3,) and np.shape(a) == (3, 3) and all(isinstance(x, (int, np.integer)) or (isinstance(x, float) and x == int(x)) for x in bb):
                LAT[id(r)] = (r, tuple(int(x) for x in bb))        # lattice vector A.q: remember q (the array is kept alive)
            return r

        @staticmethod
        def argsort(a, *args, **kw):
            return merge_argsort(list(np.asarray(a, dtype=object).flat))

        class linalg:
            inv = staticmethod(SYMNP.linalg.inv)

            @staticmethod
            def norm(vv, **kw):
                e = LAT.get(id(vv))
                if e is not None and e[0] is vv:
                    # |A.q|^2 = q^T.G.q  (C01 lemma A^T.A = G, proved for both modules): avoids 216 rational-function squares
                    q = e[1]
                    return NormKey(sum(q[i] * q[j] * Gm[i, j] for i in range(3) for j in range(3)))
                vv = np.asarray(vv, dtype=object)
                acc = lift(0)
                for x in vv:
                    acc = acc + lift(x) * lift(x)
                return NormKey(acc)
    npx = NPX()

    def body():
        with patched(mod, extra={'n': npx, 'np': npx}):
            out = mod.reduce_cell(cell, UVW)
            return out, [ROWS.get(0), ROWS.get(1), ROWS.get(2)]
    budget = 40 if tier == 'quick' else 400
    # the ~1700 norm comparisons of the sort are simple quadratic inequalities over a small box: decided in-process with the
    # witness-model shortcut (a hang would be cut by the per-unit wall limit and reported as inconclusive)
    leaves, exh = ctx.explore(body, max_paths=budget, max_seconds=240 if tier == 'quick' else 1500)
    u.exhaustive = exh
    u.decisions = ctx.decisions
    G = C.metric(f)
    with patched(mod):
        A = mod.form_a_mat(cell)
    cands = [q for q in itertools.product(range(-UVW, UVW), repeat=3) if q != (0, 0, 0)]
    for li, leaf in enumerate(leaves):
        tag = '/%s/p%d' % (box, li)
        pre_l = ctx.base() + leaf['pc']
        rp = mk_replay(f, modname, UVW if 'uvw' in desc else None, PRIME)
        if leaf['exception'] is not None:
            u.prove('C18/%s.reduce_cell/no-exception%s' % (modname, tag), pre_l, z3.BoolVal(False), replay=rp, detail=repr(leaf['exception']), timeout=20)
            continue
        u.paths += 1
        out, sel = leaf['result']
        if sel is None or any(x is None for x in sel):
            sel = None
        # translator validation at a solver witness of this path
        stw, mw, _ = smt.solve(pre_l, timeout_s=10, cvc5_timeout_s=0)
        if stw == 'sat' and mw and sel is not None:
            try:
                envw = C.env_from_model(f, mw)
                realv = np.asarray(mod.reduce_cell(C.cell_floats(envw), UVW), float)
                symv = np.array([C.evalq(x, envw) for x in out])
                if C.close(realv, symv, 1e-6, 1e-7):
                    u.validated += 1
                else:
                    u.notes.append('witness mismatch on %s: real %s symbolic %s' % (tag, np.round(realv, 6).tolist(), np.round(symv, 6).tolist()))
            except Exception as ex:
                import traceback
                u.notes.append('witness replay failed on %s: %r %s' % (tag, ex, traceback.format_exc()[-400:]))
        if sel is None:
            # fewer than three vectors were selected: the reduced basis is not within the search range uvw=1 (outside the quantifier)
            u.notes.append('path %s: no complete basis within the search range (outside the bound)' % tag)
            u.paths -= 1
            continue
        P = np.array(sel, dtype=int)            # rows = integer combinations
        det = int(round(np.linalg.det(P.astype(float))))
        u.prove('C18/%s.reduce_cell/unimodular%s' % (modname, tag), pre_l, z3.BoolVal(abs(det) == 1), replay=rp, detail='selected combinations %s, det = %d' % (sel, det), sample=(li == 0))
        # metric of the selected basis
        Gp = np.empty((3, 3), dtype=object)
        for i in range(3):
            for j in range(3):
                Gp[i, j] = sum(int(P[i][a]) * int(P[j][b]) * G[a, b] for a in range(3) for b in range(3))
        res = []
        ok_form = all(isinstance(out[i], Angle) for i in (3, 4, 5))
        if ok_form:
            for i in range(3):
                res.append(out[i] * out[i] - Gp[i, i])
            for (i, a, b) in ((3, 1, 2), (4, 0, 2), (5, 0, 1)):
                res.append(out[i].c * out[a] * out[b] - Gp[a, b])
        # pin of the listed finding: rows/columns mix-up -> the code returns the metric M^T.M of the row matrix M = P.A^T
        M = np.dot(P.astype(object), np.asarray(A, dtype=object).T)
        Gc = np.dot(M.T, M)
        pin = []
        if ok_form:
            for i in range(3):
                pin.append(out[i] * out[i] - Gc[i, i])
            for (i, a, b) in ((3, 1, 2), (4, 0, 2), (5, 0, 1)):
                pin.append(out[i].c * out[a] * out[b] - Gc[a, b])
        u.prove('C18/%s.reduce_cell/metric=P.G.P^T' % modname, pre_l, C.resid_goal(zc, res) if ok_form else z3.BoolVal(False), replay=rp,
                detail='returned six parameters are those of the selected basis %s (box %s, path %d)' % (sel, box, li), pin=C.resid_goal(zc, pin) if ok_form else None, timeout=40)
        # first vector is a shortest non-zero candidate; second is shortest among those not collinear with it
        n1 = Gp[0, 0]
        viol = []
        for q in cands:
            nq = sum(q[a] * q[b] * G[a, b] for a in range(3) for b in range(3))
            viol.append(zc.cmp0(nq - n1, '<'))
        u.prove('C18/%s.reduce_cell/first-is-shortest%s' % (modname, tag), pre_l, z3.Not(z3.Or(viol)), replay=rp,
                detail='|v1| <= |q.A| for all 215 non-zero candidates', timeout=60, cvc5_timeout=60)
        n2 = Gp[1, 1]
        viol2 = []
        p1 = tuple(int(x) for x in P[0])
        for q in cands:
            cr = np.cross(np.array(q), np.array(p1))
            if not np.any(cr):
                continue
            nq = sum(q[a] * q[b] * G[a, b] for a in range(3) for b in range(3))
            viol2.append(zc.cmp0(nq - n2, '<'))
        u.prove('C18/%s.reduce_cell/second-is-shortest-non-collinear%s' % (modname, tag), pre_l, z3.Not(z3.Or(viol2)), replay=rp,
                detail='|v2| <= |q.A| for all candidates not collinear with v1', timeout=60, cvc5_timeout=60)


_SEL = {}


def recover_selection(f, mod, modname, cell, A, leaf, ctx, npx):
    """re-run the path with an instrumented dot() that records the integer combinations assigned to red_a_mat"""
    picked = []
    real_dot = npx.dot if hasattr(npx, 'dot') else None

    class NPY(type(npx)):
        pass
    spy = NPY()
    amat_id = []

    def dot(a, b):
        r = type(npx).dot(a, b)
        bb = np.asarray(b, dtype=object)
        if bb.shape == (3,) and all(isinstance(x, (int, np.integer)) or (isinstance(x, float) and x == int(x)) for x in bb):
            picked.append(tuple(int(x) for x in bb))
        return r
    spy.dot = dot
    ctx.prefix, ctx.pos, ctx.trace, ctx.pc = list(leaf['trace']), 0, [], []
    ctx.exploring = True
    try:
        with patched(mod, extra={'n': spy, 'np': spy}):
            mod.reduce_cell(cell, UVW)
    except BaseException:
        return None
    finally:
        ctx.exploring = False
        ctx.prefix, ctx.pos, ctx.trace, ctx.pc = [], 0, [], []
    # calls: 216 candidate norms, then red_a_mat[0], then the loop tests ... the assignments are the LAST occurrence before each break:
    # v1 = first dot after the 216; v2 = last dot of the second phase; v3 = last dot overall
    tail = picked[(2 * UVW) ** 3:]
    if len(tail) < 3:
        return None
    v1 = tail[0]
    # phase 2 ends where phase 3 starts: phase 3 restarts at index i (the same vector as the last of phase 2)
    v3 = tail[-1]
    # v2: the vector whose combination is repeated at the start of phase 3
    v2 = None
    for k in range(1, len(tail) - 1):
        if tail[k] == tail[k + 1]:
            v2 = tail[k]
            break
    if v2 is None:
        v2 = tail[1]
    return [v1, v2, v3]


def numeric(modname, cell, tol=1e-6, uvw=None, prime=2):
    mod = importlib.import_module('xfab.' + modname)
    try:
        mod.reduce_cell(list(cell), uvw=prime)
    except Exception:
        pass
    bad = []
    try:
        out = np.asarray(mod.reduce_cell(list(cell)) if uvw is None else mod.reduce_cell(list(cell), uvw), float)
        A = mod.form_a_mat(cell)
        G = A.T @ A
        # metric of the returned cell
        a, b, c = out[:3]
        ca, cb, cg = [math.cos(math.radians(x)) for x in out[3:]]
        Gr = np.array([[a * a, a * b * cg, a * c * cb], [a * b * cg, b * b, b * c * ca], [a * c * cb, b * c * ca, c * c]])
        if abs(abs(np.linalg.det(Gr)) - abs(np.linalg.det(G))) > 1e-6 * abs(np.linalg.det(G)):
            bad.append(('volume', 'returned cell volume^2 %.6f vs %.6f' % (np.linalg.det(Gr), np.linalg.det(G))))
        # is Gr = P G P^T for some integer unimodular P with entries in -3..3 ?
        found = False
        cands = [q for q in itertools.product(range(-3, 4), repeat=3) if q != (0, 0, 0)]
        rows = []
        for i in range(3):
            rows.append([q for q in cands if abs(np.array(q) @ G @ np.array(q) - Gr[i, i]) < 1e-6 * Gr[i, i]])
        for q1 in rows[0]:
            for q2 in rows[1]:
                if abs(np.array(q1) @ G @ np.array(q2) - Gr[0, 1]) > 1e-6 * abs(a * b):
                    continue
                for q3 in rows[2]:
                    Pm = np.array([q1, q2, q3])
                    if abs(abs(round(np.linalg.det(Pm))) - 1) < 1e-9 and np.allclose(Pm @ G @ Pm.T, Gr, atol=1e-6 * float(np.max(np.abs(G)))):
                        found = True
                        break
                if found:
                    break
            if found:
                break
        if not found:
            bad.append(('metric', 'returned cell %s is not a basis of the lattice of %s (no unimodular P with |entries| <= 3)' % (np.round(out, 5).tolist(), [round(x, 5) for x in cell])))
        else:
            if uvw is not None:
                cands = [q for q in itertools.product(range(-uvw, uvw), repeat=3) if q != (0, 0, 0)]
            shortest = min(np.array(q) @ G @ np.array(q) for q in cands)
            if Gr[0, 0] > shortest * (1 + 1e-6):
                bad.append(('shortest', 'first returned length %.6f but a lattice vector of length %.6f exists' % (a, math.sqrt(shortest))))
    except Exception as e:
        bad.append(('exception', repr(e)))
    return bad


def mk_replay(f, modname, uvw=None, prime=2):
    def replay(model):
        env = C.env_from_model(f, model)
        cell = C.cell_floats(env)
        bad = numeric(modname, cell, uvw=uvw, prime=prime)
        rec = {'module': modname, 'cell': cell, 'uvw': uvw, 'prime': prime}
        if bad:
            return True, rec, '; '.join('%s: %s' % b for b in bad[:2])
        return False, rec, 'property holds numerically at the model cell %s' % (cell,)
    return replay


def replay(rec):
    r = rec['replay']
    bad = numeric(r['module'], r['cell'], uvw=r.get('uvw'), prime=r.get('prime', 2))
    return bool(bad), '; '.join('%s: %s' % b for b in bad) or 'property holds on the recorded input'
