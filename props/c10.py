"""C10 — detector pixel of a reflection lies on its scattered ray on the tilted detector."""
import importlib
import math
from fractions import Fraction

import numpy as np
import z3

from vengine.field import Field, Q, lift
from vengine.angle import Angle, cos_const
from vengine.explore import Ctx
from vengine import smt, core
from vengine.symnp import patched, SYMNP
from . import common as C

META = {
    'explanation': 'Real det_coor, det_coor2, det_v, detector_to_lab and tools.detect_tilt executed on symbolic 2theta/eta/tilt angles '
                   '(cos,sin pairs), distance, pixel sizes, beam centre, grain position and wavelength.  Obligations: the two pixel formulas agree, '
                   'the back-projected lab point minus the grain position is parallel to the scattered direction v (cross product zero) with positive '
                   'ray parameter, the common denominator R[:,0].v is positive on the domain, det_v returns v.',
    'functions': ['xfab.detector.det_coor', 'xfab.detector.det_coor2', 'xfab.detector.det_v', 'xfab.detector.detector_to_lab', 'xfab.tools.detect_tilt'],
    'bounds': {'2theta': '(0.5, 60) deg', 'eta': 'all', 'tilts': '[-0.3,0.3] rad each', 'distance': '[10,1000]', 'pixel': '[0.01,0.5]',
               'grain': '[-2,2]^3', 'centre': 'any real', 'wavelength': '> 0'},
    'outside_claim': ['binary64 rounding'],
    'stubs': ['numpy shims (cos/sin of Angle, sum/dot on object arrays)'],
    'assumptions': ['positivity of the ray parameter is decided by assume-guarantee decomposition: (i) facts proved about the first column of the real tilt matrix (unit length, R00>=cos(0.3)^2), (ii) the inequalities decided for every abstract unit column with those facts', 'exact real arithmetic; pi enclosure; cos(0.3), cos(0.5deg) as 45-digit rationals'],
}
NAMES = ['r0', 'r1', 'r2', 'ctt', 'stt', 'ce', 'se', 'cx', 'sx', 'cy', 'sy', 'cz', 'sz', 'L', 'py', 'pz', 'y0', 'z0', 'tx', 'ty', 'tz', 'lam', 'pi']


def units(tier):
    return [{'name': g, 'group': g} for g in ('agree', 'ray', 'denominator')]


def setup():
    f = Field(NAMES, naux=4)
    for c, s in (('ctt', 'stt'), ('ce', 'se'), ('cx', 'sx'), ('cy', 'sy'), ('cz', 'sz')):
        f.angle(c, s)
    f.positive('L', 'py', 'pz', 'lam', 'pi', 'stt', 'ctt', 'cx', 'cy', 'cz')
    ctx = Ctx(f)
    zc = ctx.zc
    v = f.var
    c03 = cos_const(Fraction(3, 10))
    pre = smt.pi_enclosure(zc)
    pre += [zc.cmp0(v('ctt') - Fraction(1, 2), '>='), zc.cmp0(v('ctt') - lift(cos_const(Fraction(5, 10) * Fraction(314159265358979, 10 ** 14) / 180)), '<=')]
    for c in ('cx', 'cy', 'cz'):
        pre.append(zc.cmp0(v(c) - lift(c03), '>='))
    pre += [zc.cmp0(v('L') - 10, '>='), zc.cmp0(v('L') - 1000, '<=')]
    for p in ('py', 'pz'):
        pre += [zc.cmp0(v(p) - Fraction(1, 100), '>='), zc.cmp0(v(p) - Fraction(1, 2), '<=')]
    for t in ('tx', 'ty', 'tz'):
        pre += [zc.cmp0(v(t) - 2, '<='), zc.cmp0(v(t) + 2, '>=')]
    ctx.pre = pre
    return f, ctx


HINT = {'r0': '1', 'r1': '0', 'r2': '0', 'ctt': '4/5', 'ce': '5/13', 'cx': '99/100', 'cy': '49/50', 'cz': '24/25', 'L': '100', 'py': '1/20', 'pz': '1/25', 'y0': '1000', 'z0': '1010',
        'tx': '1/2', 'ty': '-1/3', 'tz': '1/5', 'lam': '1/2'}


def run_unit(u, desc, tier, seed):
    from xfab import detector, tools
    group = desc['group']
    f, ctx = setup()
    zc = ctx.zc
    v = f.var
    tth = Angle(v('ctt'), v('stt'), 0, Fraction(1, 2), True, True)
    eta = Angle(v('ce'), v('se'))
    tilts = [Angle(v(c), v(s), Fraction(-1, 2), Fraction(1, 2), True, True) for c, s in (('cx', 'sx'), ('cy', 'sy'), ('cz', 'sz'))]
    L, py, pz, y0, z0, tx, ty, tz, lam = [v(n) for n in ('L', 'py', 'pz', 'y0', 'z0', 'tx', 'ty', 'tz', 'lam')]
    twopi = 2 * v('pi')
    vdir = C.oa([v('ctt'), -v('stt') * v('se'), v('stt') * v('ce')])
    Gt = C.oa([0, twopi / lam * vdir[1], twopi / lam * vdir[2]])

    def body():
        with patched(detector, tools):
            R = tools.detect_tilt(*tilts)
            p1 = detector.det_coor(Gt, v('ctt'), lam, L, py, pz, y0, z0, R, tx, ty, tz)
            p2 = detector.det_coor2(tth, eta, L, py, pz, y0, z0, R, tx, ty, tz)
            dv = detector.det_v(Gt, v('ctt'), lam, L, py, pz, y0, z0, R, tx, ty, tz)
            lab = detector.detector_to_lab(p1[0], p1[1], L, py, pz, y0, z0, R)
            lab2 = detector.detector_to_lab(p2[0], p2[1], L, py, pz, y0, z0, R)
            return {'R': R, 'p1': p1, 'p2': p2, 'dv': dv, 'lab': lab, 'lab2': lab2}
    leaves, exh = ctx.explore(body, max_paths=32)
    u.exhaustive = exh
    u.decisions = ctx.decisions
    tmo = 30 if tier == 'quick' else 300
    for li, leaf in enumerate(leaves):
        u.paths += 1
        tag = '' if li == 0 else '/path%d' % li
        pre = ctx.base() + leaf['pc']
        rp = mk_replay(f)

        def P(name, goal, **kw):
            return u.prove('C10/%s%s' % (name, tag), pre, goal, replay=rp, detail=name, sample=True, **kw)
        if leaf['exception'] is not None:
            P('no-exception(%r)' % (leaf['exception'],), z3.BoolVal(False))
            continue
        o = leaf['result']
        model = u.reach(desc['name'] + tag, pre, hints=C.hints_from(zc, HINT), soft=(li > 0))
        if model is core.INFEASIBLE:
            u.paths -= 1
            continue
        if model is not None:
            env = C.env_from_model(f, model)
            if validate(o, env):
                u.validated += 1
            else:
                u.add(desc['name'] + tag + '/translator', 'error', 'symbolic outputs disagree with the real functions at the path witness')
        R = o['R']
        t = C.oa([tx, ty, tz])
        if group == 'agree':
            P('det_coor=det_coor2', C.resid_goal(zc, [o['p1'][0] - o['p2'][0], o['p1'][1] - o['p2'][1]]))
            P('det_v=v', C.resid_goal(zc, C.flat(o['dv'] - vdir)))
            P('detect_tilt/orthonormal', C.resid_goal(zc, C.flat(np.dot(R.T, R) - C.eye3())))
            P('detect_tilt=Rx.Ry.Rz', C.resid_goal(zc, C.flat(R - C.mdot(C.Rx(v('cx'), v('sx')), C.Ry(v('cy'), v('sy')), C.Rz(v('cz'), v('sz'))))))
        elif group == 'ray':
            for nm, lab in (('det_coor', o['lab']), ('det_coor2', o['lab2'])):
                d = C.oa(lab) - t
                cr = SYMNP.cross(d, vdir)
                P('%s/on-ray:(P-t)xv=0' % nm, C.resid_goal(zc, C.flat(cr)))
                # (P-t).v = num/den with num = R00.L - R[:,0].t  (identity); positivity of num and den: group 'denominator'
                den = np.sum(R[:, 0] * vdir)
                num = R[0, 0] * L - (R[0, 0] * tx + R[1, 0] * ty + R[2, 0] * tz)
                P('%s/forward:(P-t).v.den=num' % nm, C.resid_goal(zc, [np.dot(d, vdir) * den - num]))
        elif group == 'denominator':
            # assume-guarantee decomposition (the direct 10-variable inequality is `unknown` for z3 and cvc5 at 120 s):
            # facts about the first column of the real R are proved, then the inequalities are decided over an abstract unit column r
            r = [v('r0'), v('r1'), v('r2')]
            c03 = cos_const(Fraction(3, 10))
            P('col0/unit', C.resid_goal(zc, [R[0, 0] ** 2 + R[1, 0] ** 2 + R[2, 0] ** 2 - 1]))
            P('col0/R00>=cos(0.3)^2', zc.cmp0(R[0, 0] - lift(c03 * c03), '>='), timeout=tmo)

            def g_den(col):
                return np.sum(C.oa(col) * vdir)

            def g_num(col):
                return col[0] * L - (col[0] * tx + col[1] * ty + col[2] * tz)
            den = np.sum(R[:, 0] * vdir)
            P('denominator=g(col0)', C.resid_goal(zc, [den - g_den([R[0, 0], R[1, 0], R[2, 0]])]))
            abs_pre = pre + [zc.cmp0(r[0] ** 2 + r[1] ** 2 + r[2] ** 2 - 1, '=='), zc.cmp0(r[0] - lift(c03 * c03), '>=')]
            u.prove('C10/denominator>0[abstract unit column]' + tag, abs_pre, zc.cmp0(g_den(r), '>'), replay=rp, detail='den > 0 for every unit column with r0>=cos(0.3)^2', timeout=tmo)
            u.prove('C10/ray-numerator>0[abstract unit column]' + tag, abs_pre, zc.cmp0(g_num(r), '>'), replay=rp, detail='R00.L - R[:,0].t > 0', timeout=tmo)


def floats(env):
    ang = lambda c, s: math.atan2(env[s], env[c])
    return dict(tth=ang('ctt', 'stt'), eta=ang('ce', 'se'), tilt=[ang('cx', 'sx'), ang('cy', 'sy'), ang('cz', 'sz')],
                L=env['L'], py=env['py'], pz=env['pz'], y0=env['y0'], z0=env['z0'], t=[env['tx'], env['ty'], env['tz']], lam=env['lam'])


def real_run(fl):
    from xfab import detector, tools
    R = tools.detect_tilt(*fl['tilt'])
    vd = np.array([math.cos(fl['tth']), -math.sin(fl['tth']) * math.sin(fl['eta']), math.sin(fl['tth']) * math.cos(fl['eta'])])
    Gt = np.array([0.0, 2 * math.pi / fl['lam'] * vd[1], 2 * math.pi / fl['lam'] * vd[2]])
    a = (fl['L'], fl['py'], fl['pz'], fl['y0'], fl['z0'], R, fl['t'][0], fl['t'][1], fl['t'][2])
    p1 = detector.det_coor(Gt, math.cos(fl['tth']), fl['lam'], *a)
    p2 = detector.det_coor2(fl['tth'], fl['eta'], *a)
    dv = detector.det_v(Gt, math.cos(fl['tth']), fl['lam'], *a)
    lab = detector.detector_to_lab(p1[0], p1[1], fl['L'], fl['py'], fl['pz'], fl['y0'], fl['z0'], R)
    lab2 = detector.detector_to_lab(p2[0], p2[1], fl['L'], fl['py'], fl['pz'], fl['y0'], fl['z0'], R)
    return R, vd, p1, p2, dv, lab, lab2


def validate(o, env):
    try:
        R, vd, p1, p2, dv, lab, lab2 = real_run(floats(env))
        return (C.close(C.evalarr(o['R'], env), R, 1e-7, 1e-9) and C.close([C.evalq(x, env) for x in o['p1']], p1, 1e-7, 1e-6)
                and C.close([C.evalq(x, env) for x in o['p2']], p2, 1e-7, 1e-6) and C.close([C.evalq(x, env) for x in o['lab']], lab, 1e-7, 1e-7))
    except Exception:
        return False


def numeric(fl, tol=1e-6):
    bad = []
    try:
        R, vd, p1, p2, dv, lab, lab2 = real_run(fl)
        sc = max(1.0, abs(p1[0]), abs(p1[1]))
        if max(abs(p1[0] - p2[0]), abs(p1[1] - p2[1])) > tol * sc:
            bad.append(('det_coor!=det_coor2', '%s vs %s' % (p1, p2)))
        if np.max(np.abs(dv - vd)) > tol:
            bad.append(('det_v', str(dv)))
        if np.max(np.abs(R.T @ R - np.eye(3))) > tol:
            bad.append(('R not orthonormal', str(R.tolist())))
        for nm, lb in (('det_coor', lab), ('det_coor2', lab2)):
            d = np.array(lb) - np.array(fl['t'])
            cr = np.cross(d, vd)
            if np.max(np.abs(cr)) > tol * max(1.0, np.linalg.norm(d)):
                bad.append((nm + ' lab point off the ray', 'cross=%s' % cr.tolist()))
            if not d @ vd > 0:
                bad.append((nm + ' behind the grain', str(d @ vd)))
        if not np.sum(R[:, 0] * vd) > 0:
            bad.append(('denominator<=0', str(np.sum(R[:, 0] * vd))))
    except Exception as e:
        bad.append(('exception', repr(e)))
    return bad


def mk_replay(f):
    def replay(model):
        env = C.env_from_model(f, model)
        fl = floats(env)
        bad = numeric(fl)
        if bad:
            return True, fl, '; '.join('%s: %s' % b for b in bad[:3])
        return False, fl, 'property holds numerically at the model'
    return replay


def replay(rec):
    bad = numeric(rec['replay'])
    return bool(bad), '; '.join('%s: %s' % b for b in bad) or 'property holds on the recorded input'
