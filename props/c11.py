"""C11 — detector orientation flips are exact bijections, the same for pixels and images."""
import itertools
import math
from fractions import Fraction

import numpy as np
import z3

from vengine.field import Field, Q, lift, EngineError
from vengine.angle import Angle
from vengine.explore import Ctx
from vengine import smt, zprox, core
from vengine.symnp import patched, SYMNP
from . import common as C

META = {
    'explanation': 'All 81 orientation matrices over {-1,0,1}^4 are enumerated (they select Python control flow); everything else is symbolic. '
                   'Images are index maps with a symbolic shape (n0,n1 >= 1): numpy.transpose/fliplr/flipud act on the map (i,j) -> raw index; '
                   'obligations in QF_LIA for every shape at once: inverse(forward(img)) is the identity map with the original shape (both functions), '
                   'xy_to_detyz sends every raw pixel to the index at which trans_orientation stores it (sizes passed as detz_size = extent along x, '
                   'dety_size = extent along y), xy_to_detyz and detyz_to_xy are mutual inverses for real coordinates, invalid matrices raise ValueError. '
                   'eta/radius conversions are executed on the fraction-field proxies (paths: radius < 1, sign of the y offset) and are mutual inverses for r >= 1.',
    'functions': ['xfab.detector.trans_orientation', 'xfab.detector.image_flipping', 'xfab.detector.detyz_to_xy', 'xfab.detector.xy_to_detyz',
                  'xfab.detector.detyz_to_eta_and_radpix', 'xfab.detector.eta_and_radpix_to_detyz'],
    'bounds': {'matrices': 'all 81', 'shapes': 'every n0,n1 >= 1 (symbolic, not only 1..8)', 'coordinates': 'all reals', 'radius': '>= 1'},
    'outside_claim': ['binary64 rounding in the eta conversion'],
    'stubs': ['numpy.transpose/fliplr/flipud on the symbolic index map (validated against real numpy on concrete shapes each run)', 'numpy.clip/max as if-then-else terms'],
    'assumptions': [],
}
VALID = [(1, 0, 0, 1), (-1, 0, 0, 1), (1, 0, 0, -1), (-1, 0, 0, -1), (0, 1, 1, 0), (0, -1, -1, 0), (0, -1, 1, 0), (0, 1, -1, 0)]


class SymImage:
    """image as index map: out[i,j] = raw[src(i,j)], shape = (a,b) z3 Int terms"""

    def __init__(self, shape, src):
        self.shape = shape
        self.src = src

    @staticmethod
    def raw(n0, n1):
        return SymImage((n0, n1), lambda i, j: (i, j))


def sym_transpose(img, *a):
    if isinstance(img, SymImage):
        s = img.src
        return SymImage((img.shape[1], img.shape[0]), lambda i, j: s(j, i))
    return np.transpose(img, *a)


def sym_fliplr(img):
    if isinstance(img, SymImage):
        s, b = img.src, img.shape[1]
        return SymImage(img.shape, lambda i, j: s(i, b - 1 - j))
    return np.fliplr(img)


def sym_flipud(img):
    if isinstance(img, SymImage):
        s, a = img.src, img.shape[0]
        return SymImage(img.shape, lambda i, j: s(a - 1 - i, j))
    return np.flipud(img)


class NPX:
    """numpy view for xfab.detector in the pixel/image harness"""

    def __getattr__(self, k):
        return getattr(SYMNP, k)
    transpose = staticmethod(sym_transpose)
    fliplr = staticmethod(sym_fliplr)
    flipud = staticmethod(sym_flipud)

    @staticmethod
    def max(x):
        vals = list(np.asarray(x, dtype=object).flat)
        if any(isinstance(v, zprox.ZNum) for v in vals):
            cur = vals[0] if isinstance(vals[0], zprox.ZNum) else zprox.ZNum(zprox._z(vals[0]))
            for v in vals[1:]:
                vt = zprox._z(v)
                cur = zprox.ZNum(z3.If(cur.t >= vt, cur.t, vt))
            return cur
        return np.max(x)

    @staticmethod
    def clip(x, lo, hi):
        arr = np.asarray(x, dtype=object)
        los = np.broadcast_to(np.asarray(lo, dtype=object), arr.shape)
        his = np.broadcast_to(np.asarray(hi, dtype=object), arr.shape)
        out = np.empty(arr.shape, dtype=object)
        for idx in np.ndindex(arr.shape):
            v, l, h = arr[idx], los[idx], his[idx]
            if any(isinstance(t, zprox.ZNum) for t in (v, l, h)):
                vt, lt, ht = zprox._z(v), zprox._z(l), zprox._z(h)
                out[idx] = zprox.ZNum(z3.If(vt < lt, lt, z3.If(vt > ht, ht, vt)))
            else:
                out[idx] = np.clip(v, l, h)
        return out

    @staticmethod
    def dot(a, b):
        a = np.asarray(a, dtype=object)
        b = np.asarray(b, dtype=object)
        return np.dot(a, b)

    @staticmethod
    def array(x, *a, **k):
        arr = np.empty(len(x), dtype=object) if not isinstance(x, np.ndarray) and x and not isinstance(x[0], (list, tuple, np.ndarray)) else None
        if arr is not None:
            for i, v in enumerate(x):
                arr[i] = v
            return arr
        return np.array(x, dtype=object)

    class linalg:
        @staticmethod
        def inv(m):
            m = np.array(m, dtype=float)
            inv = np.linalg.inv(m)
            out = np.empty(inv.shape, dtype=object)
            for idx in np.ndindex(inv.shape):
                out[idx] = int(round(inv[idx]))
            return out


def units(tier):
    mats = list(itertools.product((-1, 0, 1), repeat=4))
    us = [{'name': 'valid%s' % (m,), 'group': 'valid', 'o': m} for m in VALID]
    inv = [m for m in mats if m not in VALID]
    for i in range(0, len(inv), 19):
        us.append({'name': 'invalid[%d..]' % i, 'group': 'invalid', 'mats': inv[i:i + 19]})
    us.append({'name': 'eta-radius', 'group': 'eta'})
    us.append({'name': 'shim-vs-numpy', 'group': 'shim'})
    return us


def run_unit(u, desc, tier, seed):
    from xfab import detector
    smt.INPROC = True
    group = desc['group']
    if group == 'eta':
        smt.INPROC = False
        return run_eta(u, detector, tier)
    if group == 'shim':
        return run_shim(u)
    npx = NPX()
    old = detector.n
    detector.n = npx
    try:
        if group == 'invalid':
            for o in desc['mats']:
                u.paths += 1
                outcomes = []
                for fn, args in (('trans_orientation', (SymImage.raw(z3.Int('n0'), z3.Int('n1')),) + o), ('image_flipping', (SymImage.raw(z3.Int('n0'), z3.Int('n1')),) + o),
                                 ('detyz_to_xy', ([zprox.Real('p'), zprox.Real('q')],) + o + (zprox.Int('n1'), zprox.Int('n0'))),
                                 ('xy_to_detyz', ([zprox.Real('p'), zprox.Real('q')],) + o + (zprox.Int('n1'), zprox.Int('n0')))):
                    try:
                        getattr(detector, fn)(*args)
                        outcomes.append((fn, 'returned'))
                    except ValueError:
                        outcomes.append((fn, 'ValueError'))
                    except Exception as e:
                        outcomes.append((fn, type(e).__name__))
                bad = [x for x in outcomes if x[1] != 'ValueError']
                u.prove('C11/invalid%s/rejected' % (o,), [], z3.BoolVal(not bad), replay=lambda m, o=o: replay_invalid(o),
                        detail='orientation %s is not one of the eight valid ones: all four functions must raise ValueError (%s)' % (o, outcomes), sample=(o == (1, 1, 0, 0)))
            return
        o = desc['o']
        n0, n1 = z3.Int('n0'), z3.Int('n1')
        shape_pre = [n0 >= 1, n1 >= 1]
        i, j = z3.Int('i'), z3.Int('j')
        for fn in ('trans_orientation', 'image_flipping'):
            u.paths += 1
            f = getattr(detector, fn)
            raw = SymImage.raw(n0, n1)
            fw = f(raw, *o)
            back = f(fw, *o, 'inverse')
            si, sj = back.src(i, j)
            rng = [i >= 0, i < back.shape[0], j >= 0, j < back.shape[1]]
            u.prove('C11/%s%s/inverse-undoes-forward' % (fn, o), shape_pre + rng,
                    z3.And(back.shape[0] == n0, back.shape[1] == n1, si == i, sj == j), replay=lambda m, fn=fn: replay_image(fn, o, m),
                    detail='%s(%s(img,"forward"),"inverse") == img for every shape n0 x n1' % (fn, fn), sample=True)
            # forward is a bijection onto its shape: every output index has an in-range source
            fi, fj = fw.src(i, j)
            rng2 = [i >= 0, i < fw.shape[0], j >= 0, j < fw.shape[1]]
            u.prove('C11/%s%s/forward-sources-in-range' % (fn, o), shape_pre + rng2, z3.And(fi >= 0, fi < n0, fj >= 0, fj < n1),
                    replay=lambda m, fn=fn: replay_image(fn, o, m), detail='every pixel of the flipped image comes from a pixel of the raw image')
        # pixel map agrees with trans_orientation: raw img[x,y]; detz_size = extent along x = n0, dety_size = extent along y = n1
        u.paths += 1
        x, y = zprox.Int('x'), zprox.Int('y')
        pix_pre = shape_pre + [x.t >= 0, x.t < n0, y.t >= 0, y.t < n1]
        out = detector.trans_orientation(SymImage.raw(n0, n1), *o)
        d = detector.xy_to_detyz([x, y], *o, zprox.ZNum(n1), zprox.ZNum(n0))
        dy, dz = zprox._z(d[0]), zprox._z(d[1])
        sx, sy = out.src(dy, dz)
        u.prove('C11/xy_to_detyz%s/agrees-with-trans_orientation' % (o,), pix_pre,
                z3.And(dy >= 0, dy < out.shape[0], dz >= 0, dz < out.shape[1], sx == x.t, sy == y.t), replay=lambda m: replay_pixel(o, m),
                detail='trans_orientation(img)[xy_to_detyz(x,y)] is raw pixel (x,y), for every shape and pixel', sample=True)
        # mutual inverses for real coordinates
        u.paths += 1
        p, q = zprox.Real('p'), zprox.Real('q')
        a = detector.xy_to_detyz([p, q], *o, zprox.ZNum(n1), zprox.ZNum(n0))
        b = detector.detyz_to_xy([a[0], a[1]], *o, zprox.ZNum(n1), zprox.ZNum(n0))
        u.prove('C11/detyz_to_xy(xy_to_detyz)%s' % (o,), shape_pre, z3.And(zprox._z(b[0]) == p.t, zprox._z(b[1]) == q.t), replay=lambda m: replay_roundtrip(o, m, 'xy'),
                detail='detyz_to_xy(xy_to_detyz(p)) == p for all real p and all detector sizes')
        c = detector.detyz_to_xy([p, q], *o, zprox.ZNum(n1), zprox.ZNum(n0))
        e = detector.xy_to_detyz([c[0], c[1]], *o, zprox.ZNum(n1), zprox.ZNum(n0))
        u.prove('C11/xy_to_detyz(detyz_to_xy)%s' % (o,), shape_pre, z3.And(zprox._z(e[0]) == p.t, zprox._z(e[1]) == q.t), replay=lambda m: replay_roundtrip(o, m, 'detyz'),
                detail='xy_to_detyz(detyz_to_xy(p)) == p for all real p and all detector sizes')
    finally:
        detector.n = old


def run_shim(u):
    """the three index-map shims against real numpy on concrete shapes 1..5 x 1..5"""
    bad = 0
    n = 0
    for a in range(1, 6):
        for b in range(1, 6):
            img = np.arange(a * b).reshape(a, b)
            for name, symf, realf in (('transpose', sym_transpose, np.transpose), ('fliplr', sym_fliplr, np.fliplr), ('flipud', sym_flipud, np.flipud)):
                s = symf(SymImage.raw(a, b))
                r = realf(img)
                n += 1
                if tuple(s.shape) != r.shape:
                    bad += 1
                    continue
                for i in range(r.shape[0]):
                    for j in range(r.shape[1]):
                        si, sj = s.src(i, j)
                        if img[si, sj] != r[i, j]:
                            bad += 1
    u.paths = 1
    u.validated = n
    u.prove('C11/shim/index-map-model-equals-numpy', [], z3.BoolVal(bad == 0), replay=None, detail='%d shape/function combinations compared with real numpy' % n)


def run_eta(u, detector, tier):
    f = Field(['pi', 'y', 'z', 'cy0', 'cz0', 'ce', 'se', 'r'], naux=4)
    f.positive('pi', 'r')
    f.angle('ce', 'se')
    ctx = Ctx(f)
    zc = ctx.zc
    v = f.var
    ctx.pre = smt.pi_enclosure(zc)
    # (dety,detz) -> (eta, r) -> (dety,detz)
    yy, zz = v('y'), v('z')
    pre_r = [zc.cmp0(yy * yy + zz * zz - 1, '>=')]

    def body():
        with patched(detector):
            coor = C.oa([yy + v('cy0'), zz + v('cz0')])
            eta, rad = detector.detyz_to_eta_and_radpix(coor, v('cy0'), v('cz0'))
            back = detector.eta_and_radpix_to_detyz(eta, rad, v('cy0'), v('cz0'))
            return {'eta': eta, 'rad': rad, 'back': back, 'coor': coor}
    ctx.pre = ctx.pre + pre_r
    leaves, exh = ctx.explore(body, max_paths=32)
    u.exhaustive = exh
    for leaf in leaves:
        pre = ctx.base() + leaf['pc']
        tag = '/p' + ''.join('T' if d else 'F' for d in leaf['trace'])
        if leaf['exception'] is not None:
            u.prove('C11/eta/no-exception' + tag, pre, z3.BoolVal(False), replay=None, detail=repr(leaf['exception']))
            continue
        model = u.reach('eta' + tag, pre, soft=True)
        if model is core.INFEASIBLE:
            continue
        u.paths += 1
        o = leaf['result']
        eta = o['eta']
        okwin = isinstance(eta, Angle) and eta.is_deg() and eta.lo is not None and eta.lo >= 0 and eta.hi <= 2
        u.prove('C11/detyz_to_eta_and_radpix/eta-in-[0,360]' + tag, pre, z3.BoolVal(bool(okwin)), replay=None, detail='eta window %s' % ((str(eta.lo), str(eta.hi)) if isinstance(eta, Angle) else eta,))
        u.prove('C11/eta_and_radpix_to_detyz(detyz_to_eta_and_radpix)' + tag, pre, C.resid_goal(zc, C.flat(o['back'] - o['coor'])), replay=mk_replay_eta(f),
                detail='(dety,detz) -> (eta,r) -> (dety,detz) is the identity for r >= 1', sample=True)
        u.prove('C11/detyz_to_eta_and_radpix/radius' + tag, pre, z3.And(C.resid_goal(zc, [o['rad'] * o['rad'] - yy * yy - zz * zz]), zc.cmp0(o['rad'], '>=')), replay=mk_replay_eta(f), detail='radius^2 = dy^2+dz^2')
    # (eta, r) -> (dety,detz) -> (eta', r'):  same (cos,sin), same radius
    ctx2 = Ctx(f)
    zc2 = ctx2.zc
    ctx2.pre = smt.pi_enclosure(zc2) + [zc2.cmp0(v('r') - 1, '>=')]

    def body2():
        with patched(detector):
            eta = Angle(v('ce'), v('se'), 0, 2, False, True).in_unit('deg')
            coor = detector.eta_and_radpix_to_detyz(eta, v('r'), v('cy0'), v('cz0'))
            e2, r2 = detector.detyz_to_eta_and_radpix(coor, v('cy0'), v('cz0'))
            c2, s2 = (e2 * SYMNP.pi / 180.).cs()        # evaluated on the path (may need sign decisions)
            return {'e2': e2, 'r2': r2, 'c2': c2, 's2': s2}
    leaves, exh = ctx2.explore(body2, max_paths=32)
    for leaf in leaves:
        pre = ctx2.base() + leaf['pc']
        tag = '/q' + ''.join('T' if d else 'F' for d in leaf['trace'])
        if leaf['exception'] is not None:
            u.prove('C11/eta-reverse/no-exception' + tag, pre, z3.BoolVal(False), replay=None, detail=repr(leaf['exception']))
            continue
        model = u.reach('eta-rev' + tag, pre, soft=True)
        if model is core.INFEASIBLE:
            continue
        u.paths += 1
        o = leaf['result']
        c2, s2 = o['c2'], o['s2']
        u.prove('C11/detyz_to_eta_and_radpix(eta_and_radpix_to_detyz)' + tag, pre,
                z3.And(C.resid_goal(zc2, [c2 - v('ce'), s2 - v('se'), o['r2'] - v('r')])), replay=mk_replay_eta_rev(f),
                detail='(eta,r) -> (dety,detz) -> (eta\',r\') returns the same radius and the same angle modulo 360 deg', sample=True)


# ------------------------------------------------------------------------------------------------
# concrete replays on the real code with real numpy

def replay_invalid(o):
    from xfab import detector
    img = np.arange(6).reshape(2, 3)
    outs = []
    for fn, args in (('trans_orientation', (img,) + o), ('image_flipping', (img,) + o), ('detyz_to_xy', ([1., 2.],) + o + (3, 2)), ('xy_to_detyz', ([1., 2.],) + o + (3, 2))):
        try:
            getattr(detector, fn)(*args)
            outs.append(fn + ':returned')
        except ValueError:
            outs.append(fn + ':ValueError')
        except Exception as e:
            outs.append(fn + ':' + type(e).__name__)
    bad = [x for x in outs if not x.endswith('ValueError')]
    return bool(bad), {'kind': 'invalid', 'o': list(o)}, 'orientation %s: %s' % (o, outs)


def _shape(m):
    return max(1, int(m.get('n0', 2) or 2)), max(1, int(m.get('n1', 3) or 3))


def replay_image(fn, o, m):
    from xfab import detector
    a, b = _shape(m or {})
    for (aa, bb) in ((a, b), (2, 3), (3, 2), (1, 4)):
        img = np.arange(aa * bb).reshape(aa, bb)
        f = getattr(detector, fn)
        back = f(f(img, *o), *o, 'inverse')
        if back.shape != img.shape or not np.array_equal(back, img):
            return True, {'kind': 'image', 'fn': fn, 'o': list(o), 'shape': [aa, bb]}, '%s%s on shape %dx%d: inverse(forward(img)) != img' % (fn, o, aa, bb)
    return False, {'kind': 'image', 'fn': fn, 'o': list(o), 'shape': [a, b]}, 'image round trip holds on the tried shapes'


def replay_pixel(o, m):
    from xfab import detector
    a, b = _shape(m or {})
    for (aa, bb) in ((a, b), (2, 3), (3, 2), (4, 7)):
        img = np.arange(aa * bb).reshape(aa, bb)
        out = detector.trans_orientation(img, *o)
        for x in range(aa):
            for y in range(bb):
                d = detector.xy_to_detyz([x, y], *o, bb, aa)
                dy, dz = int(round(d[0])), int(round(d[1]))
                if not (0 <= dy < out.shape[0] and 0 <= dz < out.shape[1]) or out[dy, dz] != img[x, y]:
                    return True, {'kind': 'pixel', 'o': list(o), 'shape': [aa, bb], 'xy': [x, y]}, 'orientation %s shape %dx%d: raw pixel (%d,%d) -> detyz (%s,%s) does not hold its value' % (o, aa, bb, x, y, dy, dz)
    return False, {'kind': 'pixel', 'o': list(o), 'shape': [a, b]}, 'pixel map agrees on the tried shapes'


def replay_roundtrip(o, m, which):
    from xfab import detector
    m = m or {}
    a, b = _shape(m)
    p = [float(m.get('p', 1.25) or 0), float(m.get('q', 0.5) or 0)]
    for (aa, bb) in ((a, b), (2, 3), (5, 2)):
        if which == 'xy':
            r = detector.detyz_to_xy(detector.xy_to_detyz(p, *o, bb, aa), *o, bb, aa)
        else:
            r = detector.xy_to_detyz(detector.detyz_to_xy(p, *o, bb, aa), *o, bb, aa)
        if abs(r[0] - p[0]) > 1e-9 or abs(r[1] - p[1]) > 1e-9:
            return True, {'kind': 'roundtrip', 'o': list(o), 'shape': [aa, bb], 'p': p, 'which': which}, 'orientation %s sizes (x=%d,y=%d): %s round trip of %s gives %s' % (o, aa, bb, which, p, list(r))
    return False, {'kind': 'roundtrip', 'o': list(o), 'shape': [a, b], 'p': p, 'which': which}, 'round trip holds on the tried sizes'


def mk_replay_eta(f):
    def replay(model):
        from xfab import detector
        env = C.env_from_model(f, model)
        c = np.array([env['y'] + env['cy0'], env['z'] + env['cz0']])
        e, r = detector.detyz_to_eta_and_radpix(c, env['cy0'], env['cz0'])
        back = detector.eta_and_radpix_to_detyz(e, r, env['cy0'], env['cz0'])
        bad = (r >= 1) and (np.max(np.abs(back - c)) > 1e-6 * max(1.0, r) or not (0 <= e <= 360))
        return bool(bad), {'kind': 'eta', 'c': c.tolist(), 'centre': [env['cy0'], env['cz0']]}, 'coor=%s -> eta=%r r=%r -> %s' % (c.tolist(), e, r, back.tolist())
    return replay


def eta_rev_numeric(eta, r, cy0, cz0):
    from xfab import detector
    coor = detector.eta_and_radpix_to_detyz(eta, r, cy0, cz0)
    e2, r2 = detector.detyz_to_eta_and_radpix(coor, cy0, cz0)
    d = (float(e2) - eta + 180.0) % 360.0 - 180.0
    bad = abs(float(r2) - r) > 1e-6 * max(1.0, r) or abs(d) > 1e-6
    return bool(bad), '(eta=%r, r=%r) -> %s -> (eta=%r, r=%r)' % (eta, r, np.asarray(coor).tolist(), e2, r2)


def mk_replay_eta_rev(f):
    def replay(model):
        env = C.env_from_model(f, model)
        eta = math.degrees(math.atan2(env['se'], env['ce'])) % 360.0
        rec = {'kind': 'eta_rev', 'eta': eta, 'r': env['r'], 'centre': [env['cy0'], env['cz0']]}
        bad, t = eta_rev_numeric(eta, env['r'], env['cy0'], env['cz0'])
        return bad, rec, t
    return replay


def replay(rec):
    r = rec['replay']
    k = r.get('kind')
    if k == 'eta_rev':
        return eta_rev_numeric(r['eta'], r['r'], r['centre'][0], r['centre'][1])
    if k == 'invalid':
        ok, _, t = replay_invalid(tuple(r['o']))
    elif k == 'image':
        ok, _, t = replay_image(r['fn'], tuple(r['o']), {'n0': r['shape'][0], 'n1': r['shape'][1]})
    elif k == 'pixel':
        ok, _, t = replay_pixel(tuple(r['o']), {'n0': r['shape'][0], 'n1': r['shape'][1]})
    elif k == 'roundtrip':
        ok, _, t = replay_roundtrip(tuple(r['o']), {'n0': r['shape'][0], 'n1': r['shape'][1], 'p': r['p'][0], 'q': r['p'][1]}, r['which'])
    else:
        return True, 'see record'
    return ok, t
