"""C13 — strain <-> strained B are exact inverses; UBI yields back U and strain (both modules)."""
import importlib
import math
from fractions import Fraction

import numpy as np
import z3

from vengine.field import Field, Q, lift
from vengine.explore import Ctx
from vengine import smt, core
from vengine.symnp import patched, SYMNP
from . import common as C
from .c02 import rot_from_quat, quat_floats, QN

FUNCS = ['epsilon_to_b', 'b_to_epsilon', 'epsilon_to_b_old', 'b_to_epsilon_old', 'ubi_to_u_and_eps', 'u_to_ubi', 'form_b_mat', 'form_a_mat',
         'form_a_mat_inv', 'a_to_cell', 'b_to_cell', 'ubi_to_cell']
META = {
    'explanation': 'Array arguments: the strain is handed to epsilon_to_b as an array; the array must be unchanged afterwards, a second call with the same array object must return the same B, b_to_epsilon must leave its B array unchanged. '
                   'Real strain functions executed on a symbolic unstrained cell and either six free strain components (new pair) or a second '
                   'symbolic cell playing the strained lattice (radical-free parametrisation of the inverse maps: every upper-triangular B with '
                   'positive diagonal is form_b_mat of exactly one cell).  Oracle written in the harness: eps(B) = sym(B0.inv(B)) - I, '
                   'eps_old = sym(A.inv(A0)) - I.  ubi_to_u_and_eps is driven with UBI = kappa.inv(U.B) (the module\'s own u_to_ubi convention).',
    'functions': ['xfab.%s.%s' % (m, f) for m in ('tools', 'laue') for f in FUNCS],
    'bounds': {'cell': 'as C01', 'strain': 'new pair: all real strains for the identities, |eps_ij| <= 0.1 for the shape (positive diagonal) obligations; '
                                          'inverse maps: every strain reachable as the oracle strain of a second valid cell',
               'U': 'all proper rotations (unit quaternion)'},
    'outside_claim': ['binary64 rounding', 'strain components beyond 0.1 for the positivity obligations'],
    'stubs': ['numpy shims as in C01/C02'],
    'assumptions': ['Cholesky uniqueness: every upper-triangular matrix with positive diagonal is the B (A) matrix of exactly one cell',
                    'exact real arithmetic; pi enclosure'],
}
GROUPS = ['new_roundtrip', 'new_oracle', 'old_pair', 'ubi_eps', 'history']
EN = ['e11', 'e12', 'e13', 'e22', 'e23', 'e33']
XN = ['x' + n for n in C.CELL_NAMES]


def units(tier):
    return [{'name': '%s/%s' % (m, g), 'module': m, 'group': g} for m in ('tools', 'laue') for g in GROUPS]


def sym6(T):
    """[e11,e12,e13,e22,e23,e33] of sym(T) - I"""
    E = (T + T.T) * Fraction(1, 2) - C.eye3()
    return [E[0, 0], E[0, 1], E[0, 2], E[1, 1], E[1, 2], E[2, 2]]


def run_unit(u, desc, tier, seed):
    modname, group = desc['module'], desc['group']
    mod = importlib.import_module('xfab.' + modname)
    import xfab
    from xfab import checks
    xfab.CHECKS.activated = True
    names = C.CELL_NAMES + ['pi']
    if group == 'new_roundtrip':
        names += EN
    else:
        names += XN
    if group == 'ubi_eps':
        names += QN
    f = Field(names, naux=8)
    C.cell_setup(f)
    f.positive('pi')
    if group != 'new_roundtrip':
        C.cell_setup(f, 'x')
    if group == 'ubi_eps':
        C.quat_setup(f)
    ctx = Ctx(f)
    zc = ctx.zc
    ctx.pre = C.cell_pre(zc, f) + smt.pi_enclosure(zc)
    if group != 'new_roundtrip':
        ctx.pre += C.cell_pre(zc, f, 'x')
    cell = C.cell_of(f)
    kap = 2 * f.var('pi') if modname == 'tools' else lift(1)
    hint = dict(C.CELL_HINT)
    if group == 'new_roundtrip':
        eps = [f.var(n) for n in EN]
        hint.update({'e11': '1/100', 'e12': '-1/50', 'e13': '3/100', 'e22': '1/20', 'e23': '-1/25', 'e33': '-3/100'})
    else:
        cell2 = C.cell_of(f, 'x')
        hint.update({'xa': '31/10', 'xb': '39/10', 'xc': '51/10', 'xcal': '1/5', 'xcbe': '-1/10', 'xcga': '-1/7'})
    if group == 'ubi_eps':
        U = C.quat_rot(f)
        hint.update({'qx': '1/3', 'qy': '-1/5', 'qz': '2/7'})

    def body():
        with patched(mod, checks):
            B0 = mod.form_b_mat(cell)
            if group == 'new_roundtrip':
                # the strain is handed over as an ARRAY (what a caller holding a float64 array does): the callee must not modify it,
                # and a second call with the same array object must return the same matrix
                epsA = C.oa(list(eps))
                B = mod.epsilon_to_b(epsA, cell)
                eps_after = [epsA[i] for i in range(6)]
                B_again = mod.epsilon_to_b(epsA, cell)
                Bkeep = B.copy()
                eps2 = mod.b_to_epsilon(B, cell)
                return {'B0': B0, 'B': Bkeep, 'eps2': eps2, 'Bzero': mod.epsilon_to_b([0, 0, 0, 0, 0, 0], cell),
                        'eps_after': eps_after, 'B_again': B_again, 'B_after': B}
            B2 = mod.form_b_mat(cell2)
            if group == 'new_oracle':
                e = mod.b_to_epsilon(B2, cell)
                orc = sym6(np.dot(B0, SYMNP.linalg.inv(B2)))
                return {'B0': B0, 'B2': B2, 'eps': e, 'orc': orc, 'Bback': mod.epsilon_to_b(orc, cell)}
            if group == 'history':
                # the same list object is modified in place between calls: results must follow the current contents
                L = list(cell)
                e1 = mod.b_to_epsilon(B2, L)
                L[:] = list(cell2)
                e2 = mod.b_to_epsilon(B2, L)
                Bz = mod.epsilon_to_b([0, 0, 0, 0, 0, 0], L)
                U_, e3 = mod.ubi_to_u_and_eps(SYMNP.linalg.inv(B2) * kap, L) if modname == 'laue' else (None, e2)
                return {'B2': B2, 'e1': e1, 'e2': e2, 'Bz': Bz, 'e3': e3, 'orc': sym6(np.dot(B0, SYMNP.linalg.inv(B2)))}
            if group == 'old_pair':
                A0 = mod.form_a_mat(cell)
                A2 = mod.form_a_mat(cell2)
                orc = sym6(np.dot(A2, SYMNP.linalg.inv(A0)))
                return {'B2': B2, 'eps': mod.b_to_epsilon_old(B2, cell), 'orc': orc, 'Bback': mod.epsilon_to_b_old(orc, cell)}
            if group == 'ubi_eps':
                UBI = SYMNP.linalg.inv(np.dot(U, B2)) * kap
                U2, e = mod.ubi_to_u_and_eps(UBI, cell)
                orc = sym6(np.dot(B0, SYMNP.linalg.inv(B2)))
                # the module's own UBI convention: u_to_ubi(U, cell2) must be this UBI
                return {'UBI': UBI, 'UBI_own': mod.u_to_ubi(U, cell2), 'U2': U2, 'eps': e, 'orc': orc}

    leaves, exh = ctx.explore(body, max_paths=64)
    u.exhaustive = exh
    u.decisions = ctx.decisions
    for li, leaf in enumerate(leaves):
        u.paths += 1
        tag = '' if li == 0 else '/path%d' % li
        pre = ctx.base() + leaf['pc']
        rp = mk_replay(f, modname, group)

        def P(name, goal, **kw):
            return u.prove('C13/%s.%s%s' % (modname, name, tag), pre, goal, replay=rp, detail=name, sample=True, **kw)
        if leaf['exception'] is not None:
            P(group + '/no-exception(%r)' % (leaf['exception'],), z3.BoolVal(False))
            continue
        o = leaf['result']
        model = u.reach(desc['name'] + tag, pre, hints=C.hints_from(zc, hint), soft=(li > 0))
        if model is core.INFEASIBLE:
            u.paths -= 1
            continue
        if model is not None:
            env = C.env_from_model(f, model)
            if validate(mod, modname, group, o, env):
                u.validated += 1
            else:
                u.add(desc['name'] + tag + '/translator', 'error', 'symbolic outputs disagree with the real function at the path witness')
        if group == 'new_roundtrip':
            P('b_to_epsilon(epsilon_to_b(eps))=eps', C.resid_goal(zc, [o['eps2'][i] - eps[i] for i in range(6)]))
            P('epsilon_to_b(0)=form_b_mat', C.resid_goal(zc, C.flat(o['Bzero'] - o['B0'])))
            P('epsilon_to_b/leaves-its-strain-array-unchanged', C.resid_goal(zc, [o['eps_after'][i] - eps[i] for i in range(6)]))
            P('epsilon_to_b/second-call-with-the-same-array=first', C.resid_goal(zc, C.flat(o['B_again'] - o['B'])))
            P('b_to_epsilon/leaves-its-B-array-unchanged', C.resid_goal(zc, C.flat(o['B_after'] - o['B'])))
            B = o['B']
            P('epsilon_to_b/upper-triangular', C.resid_goal(zc, [B[1, 0], B[2, 0], B[2, 1]]))
            bound = []
            for e in eps:
                bound += [zc.cmp0(e - lift(Fraction(1, 10)), '<='), zc.cmp0(e + lift(Fraction(1, 10)), '>=')]
            for i in range(3):
                u.prove('C13/%s.epsilon_to_b/diag%d>0%s' % (modname, i, tag), pre + bound, zc.cmp0(B[i, i], '>'), replay=rp,
                        detail='positive diagonal for |eps|<=0.1', timeout=40)
        elif group == 'new_oracle':
            P('b_to_epsilon=sym(B0.inv(B))-I', C.resid_goal(zc, [o['eps'][i] - o['orc'][i] for i in range(6)]))
            P('epsilon_to_b(eps(B))=B', C.resid_goal(zc, C.flat(o['Bback'] - o['B2'])))
        elif group == 'old_pair':
            P('b_to_epsilon_old=sym(A.inv(A0))-I', C.resid_goal(zc, [o['eps'][i] - o['orc'][i] for i in range(6)]))
            P('epsilon_to_b_old(eps_old(B))=B', C.resid_goal(zc, C.flat(o['Bback'] - o['B2'])))
        elif group == 'history':
            P('history/first-call=oracle', C.resid_goal(zc, [o['e1'][i] - o['orc'][i] for i in range(6)]))
            P('history/b_to_epsilon-follows-in-place-change-of-the-cell-list', C.resid_goal(zc, list(o['e2'])))
            P('history/epsilon_to_b(0)-follows-in-place-change', C.resid_goal(zc, C.flat(o['Bz'] - o['B2'])))
            P('history/ubi_to_u_and_eps-follows-in-place-change', C.resid_goal(zc, list(o['e3'])))
        elif group == 'ubi_eps':
            P('harness/UBI-is-u_to_ubi-convention', C.resid_goal(zc, C.flat(o['UBI'] - o['UBI_own'])))
            P('ubi_to_u_and_eps/U', C.resid_goal(zc, C.flat(o['U2'] - U)))
            # pin of the listed finding: the code returns kappa*(I+eps) - I
            I6 = [1, 0, 0, 1, 0, 1]
            pin = C.resid_goal(zc, [o['eps'][i] - (kap * (I6[i] + o['orc'][i]) - I6[i]) for i in range(6)])
            P('ubi_to_u_and_eps/eps', C.resid_goal(zc, [o['eps'][i] - o['orc'][i] for i in range(6)]), pin=pin)


def cell2_floats(env):
    return C.cell_floats(env, 'x')


def validate(mod, modname, group, o, env):
    cellf = C.cell_floats(env)
    try:
        if group == 'new_roundtrip':
            ef = [env[n] for n in EN]
            return C.close(C.evalarr(o['B'], env), mod.epsilon_to_b(ef, cellf), 1e-7, 1e-8)
        c2 = cell2_floats(env)
        B2 = mod.form_b_mat(c2)
        if group == 'new_oracle':
            return C.close([C.evalq(x, env) for x in o['eps']], mod.b_to_epsilon(B2, cellf), 1e-7, 1e-8)
        if group == 'old_pair':
            return C.close([C.evalq(x, env) for x in o['eps']], mod.b_to_epsilon_old(B2, cellf), 1e-7, 1e-8)
        if group == 'history':
            return True
        if group == 'ubi_eps':
            U = rot_from_quat(quat_floats(env))
            UBI = mod.u_to_ubi(U, c2)
            U2, e = mod.ubi_to_u_and_eps(UBI, cellf)
            return C.close(C.evalarr(o['U2'], env), U2, 1e-7, 1e-8) and C.close([C.evalq(x, env) for x in o['eps']], e, 1e-7, 1e-8)
    except Exception:
        return False
    return False


def numeric(modname, group, cell, cell2, eps, q, tol=1e-6):
    mod = importlib.import_module('xfab.' + modname)
    import xfab
    xfab.CHECKS.activated = True
    bad = []

    def chk(name, x, y):
        x = np.asarray(x, float)
        y = np.asarray(y, float)
        sc = max(1.0, float(np.max(np.abs(y))))
        if x.shape != y.shape or not np.all(np.isfinite(x)) or np.max(np.abs(x - y)) > tol * sc:
            bad.append((name, 'got %s expected %s' % (np.round(x, 7).tolist(), np.round(y, 7).tolist())))

    def s6(T):
        E = 0.5 * (T + T.T) - np.eye(3)
        return [E[0, 0], E[0, 1], E[0, 2], E[1, 1], E[1, 2], E[2, 2]]
    try:
        B0 = mod.form_b_mat(cell)
        if group == 'new_roundtrip':
            epsA = np.array(eps, float)
            B = mod.epsilon_to_b(epsA, cell)
            chk('epsilon_to_b leaves its strain array unchanged', epsA, eps)
            chk('epsilon_to_b second call with the same array', mod.epsilon_to_b(epsA, cell), B)
            Bk = np.array(B, float).copy()
            chk('b_to_epsilon(epsilon_to_b)', mod.b_to_epsilon(B, cell), eps)
            chk('b_to_epsilon leaves its B array unchanged', B, Bk)
            chk('epsilon_to_b(0)', mod.epsilon_to_b([0.] * 6, cell), B0)
            chk('upper', [B[1, 0], B[2, 0], B[2, 1]], [0, 0, 0])
            if max(abs(e) for e in eps) <= 0.1 and min(np.diag(B)) <= 0:
                bad.append(('diag>0', str(np.diag(B))))
            return bad
        B2 = mod.form_b_mat(cell2)
        orc = s6(B0 @ np.linalg.inv(B2))
        if group == 'new_oracle':
            chk('b_to_epsilon', mod.b_to_epsilon(B2, cell), orc)
            chk('epsilon_to_b(eps(B))', mod.epsilon_to_b(orc, cell), B2)
        elif group == 'old_pair':
            orco = s6(mod.form_a_mat(cell2) @ np.linalg.inv(mod.form_a_mat(cell)))
            chk('b_to_epsilon_old', mod.b_to_epsilon_old(B2, cell), orco)
            chk('epsilon_to_b_old', mod.epsilon_to_b_old(orco, cell), B2)
        elif group == 'history':
            L = list(cell)
            mod.b_to_epsilon(B2, L)
            L[:] = list(cell2)
            chk('b_to_epsilon after in-place change of the cell list', mod.b_to_epsilon(B2, L), [0.] * 6)
            chk('epsilon_to_b(0) after in-place change', mod.epsilon_to_b([0.] * 6, L), B2)
        elif group == 'ubi_eps':
            U = rot_from_quat(np.asarray(q) / np.linalg.norm(q))
            UBI = mod.u_to_ubi(U, cell2)
            U2, e = mod.ubi_to_u_and_eps(UBI, cell)
            chk('U', U2, U)
            chk('eps', e, orc)
    except Exception as e:
        bad.append(('exception', repr(e)))
    return bad


def mk_replay(f, modname, group):
    def replay(model):
        env = C.env_from_model(f, model)
        rec = {'module': modname, 'group': group, 'cell': C.cell_floats(env),
               'cell2': cell2_floats(env) if group != 'new_roundtrip' else None,
               'eps': [env[n] for n in EN] if group == 'new_roundtrip' else None,
               'q': quat_floats(env).tolist() if group == 'ubi_eps' else None}
        bad = numeric(modname, group, rec['cell'], rec['cell2'], rec['eps'], rec['q'])
        if bad:
            return True, rec, '; '.join('%s: %s' % b for b in bad[:3])
        return False, rec, 'property holds numerically at the model'
    return replay


def replay(rec):
    r = rec['replay']
    bad = numeric(r['module'], r['group'], r['cell'], r['cell2'], r['eps'], r['q'])
    return bool(bad), '; '.join('%s: %s' % b for b in bad) or 'property holds on the recorded input'
