"""C16 — atomic form factors are physical: f(0)=Z, positive and decreasing on [0,2]."""
import math
from fractions import Fraction

from vengine import tterm, smt
from vengine.tterm import T, var
from vengine.symnp import patched

ELS = ("H HE LI BE B C N O F NE NA MG AL SI P S CL AR K CA SC TI V CR MN FE CO NI CU ZN GA GE AS SE BR KR RB SR Y ZR NB MO TC RU RH "
       "PD AG CD IN SN SB TE I XE CS BA LA CE PR ND PM SM EU GD TB DY HO ER TM YB LU HF TA W RE OS IR PT AU HG TL PB BI PO AT RN FR RA "
       "AC TH PA U NP PU").split()
META = {
    'explanation': 'structure.FormFactor is executed on a symbolic sin(theta)/lambda for every live key of atomlib.formfactor; numpy.exp becomes the '
                   'transcendental exp of cvc5 (QF_NRAT).  Per element: the result equals sum a_i exp(-b_i s^2)+c built from the live table; '
                   '|f(0)-Z|<=0.1; f(s)>0 for all real s in [0,2]; df/ds<0 for all real s in (0,2] (derivative taken symbolically from the '
                   'expression the real code produced).  unsat of the negation = holds for every real s in the interval.',
    'functions': ['xfab.structure.FormFactor'],
    'bounds': {'elements': 'all keys of the live table (94)', 's': 'all reals in [0,2] (not a grid)'},
    'outside_claim': ['binary64 rounding of exp'],
    'stubs': ['numpy.exp -> cvc5 exp'],
    'assumptions': ['cvc5 incremental linearisation of exp is sound', 'atomic numbers from the periodic table H..Pu listed in the harness'],
}


def units(tier):
    from xfab import atomlib
    keys = sorted(atomlib.formfactor.keys())
    us = [{'name': 'keys', 'els': None}]
    n = 6
    for i in range(0, len(keys), n):
        us.append({'name': 'els:' + ','.join(keys[i:i + n]), 'els': keys[i:i + n]})
    return us


def Z_of(el):
    return ELS.index(el) + 1 if el in ELS else None


def run_unit(u, desc, tier, seed):
    from xfab import structure, atomlib
    import z3
    if desc['els'] is None:
        keys = set(atomlib.formfactor.keys())
        ok = keys == set(ELS)
        u.prove('C16/table/keyset', [], z3.BoolVal(ok), replay=lambda m: (True, {'kind': 'keyset'}, 'key set differs: missing %s extra %s' % (
            sorted(set(ELS) - keys), sorted(keys - set(ELS)))), detail='table keys are exactly the symbols of Z=1..94')
        u.paths = 1
        return
    s = var('s')
    tmo = 20.0 if tier == 'quick' else 120.0
    from fractions import Fraction
    from vengine.field import Field
    from vengine.explore import Ctx
    from vengine import smt as _smt
    import z3 as _z3
    _smt.INPROC = True
    for el in desc['els']:
        ctx = Ctx(Field(['dummy'], naux=0))
        zs = _z3.Real('s')
        ctx.pre = [zs >= 0, zs <= 2]

        def body():
            with patched(structure):
                return structure.FormFactor(el, s)
        leaves, exh = ctx.explore(body, max_paths=64)
        for leaf in leaves:
            run_leaf(u, desc, tier, structure, atomlib, el, s, leaf, tmo)


def run_leaf(u, desc, tier, structure, atomlib, el, s, leaf, tmo):
        u.paths += 1
        pcs = [c.sexpr() for c in leaf['pc']]
        ptag = '' if not leaf['pc'] else '/p' + ''.join('T' if d else 'F' for d in leaf['trace'])
        if leaf['exception'] is not None:
            u.add('C16/%s/exception%s' % (el, ptag), 'violated', 'FormFactor raised %r' % (leaf['exception'],), replay={'kind': 'positive', 'el': el, 's': 0.0})
            return
        f = leaf['result']
        data = atomlib.formfactor[el]
        if not isinstance(f, T):
            u.add('C16/%s/symbolic' % el, 'error', 'FormFactor did not produce a symbolic term: %r' % (f,))
            return
        # translator validation: symbolic tree vs real function at a few points
        good = True
        for sv in ((0.0, 0.25, 0.8, 1.7) if not leaf['pc'] else ()):
            real = structure.FormFactor(el, sv)
            if abs(float(f.ev({'s': sv})) - real) > 1e-9 * max(1, abs(real)):
                good = False
        if good:
            u.validated += 1
        else:
            u.add('C16/%s/translator' % el, 'error', 'symbolic tree disagrees with real FormFactor')
        oracle = T('const', Fraction(repr(float(data[8]))))
        for i in range(4):
            oracle = oracle + Fraction(repr(float(data[i]))) * (-(Fraction(repr(float(data[i + 4]))) * s * s)).exp()
        Zel = Z_of(el)

        def query(key, assertions, detail, replay_fn, pin=None, interval=None):
            key = key + ptag
            assertions = pcs + assertions
            st, vals = tterm.run_cvc5_text(['s'], assertions, timeout_s=tmo)
            if st == 'unknown' and interval is not None:
                # refinement: cvc5 cannot certify a model involving exp.  Split the interval; pieces it refutes are done, on the
                # remaining pieces the real function is evaluated and a concrete violating s is reported if one exists
                lo, hi, goalfmt = interval
                N = 32
                open_pieces = []
                for kk in range(N):
                    a_, b_ = lo + (hi - lo) * kk / N, lo + (hi - lo) * (kk + 1) / N
                    st2, _ = tterm.run_cvc5_text(['s'], pcs + ['(>= s %s)' % T('const', Fraction(a_).limit_denominator(10 ** 6)).smt(), '(<= s %s)' % T('const', Fraction(b_).limit_denominator(10 ** 6)).smt(), goalfmt], timeout_s=max(3.0, tmo / 8))
                    if st2 != 'unsat':
                        open_pieces.append((a_, b_))
                for a_, b_ in open_pieces:
                    for jj in range(9):
                        sv = a_ + (b_ - a_) * jj / 8
                        if sv <= 0 and 'decreasing' in key:
                            continue
                        ok, rec, text = replay_fn(sv)
                        if ok:
                            u.add(key, 'violated', detail + ' :: ' + text, witness={'s': sv, 'element': el}, replay=rec)
                            return
                if not open_pieces:
                    u.add(key, 'discharged', detail + ' [by interval refinement: all %d sub-intervals refuted]' % N, info={'solver': 'cvc5'})
                    return
                u.add(key, 'inconclusive', detail + ' [cvc5 unknown on %d of %d sub-intervals, no concrete violation found there]' % (len(open_pieces), N))
                return
            if st == 'unsat':
                u.add(key, 'discharged', detail, info={'solver': 'cvc5'})
                if len(u.samples) < 2:
                    u.samples.append({'obligation': key, 'verdict': 'unsat', 'smt': assertions[-1][:200]})
            elif st == 'unknown':
                u.add(key, 'inconclusive', detail + ' [cvc5 unknown]')
            else:
                sv = float(vals.get('s')) if vals and vals.get('s') is not None else 0.0
                ok, rec, text = replay_fn(sv)
                if ok:
                    k2 = key
                    if pin is not None:
                        pst, _ = tterm.run_cvc5_text(['s'], pin, timeout_s=tmo)
                        if pst != 'unsat':
                            k2 = key + '#pin-not-established'
                    u.add(k2, 'violated', detail + ' :: ' + text, witness={'s': sv, 'element': el}, replay=rec)
                else:
                    u.add(key, 'error', detail + ' [model s=%r does not reproduce: %s]' % (sv, text))
        # (a) formula
        query('C16/%s/formula' % el, ['(not (= %s %s))' % (f.smt(), oracle.smt())], 'FormFactor == sum a_i exp(-b_i s^2) + c (live table)',
              lambda sv: num_formula(el, sv))
        # (b) f(0) = Z within 0.1
        if Zel is None:
            u.add('C16/%s/f0' % el, 'error', 'element not in periodic table list')
        else:
            known = known_f0(el)
            pin = None
            if known is not None:
                pin = ['(= s 0.0)', '(not (and (<= (- %s %s) 0.000001) (>= (- %s %s) (- 0.000001))))' % (f.smt(), T('const', known).smt(), f.smt(), T('const', known).smt())]
            query('C16/%s/f0' % el, ['(= s 0.0)', '(or (> (- %s %d.0) 0.1) (< (- %s %d.0) (- 0.1)))' % (f.smt(), Zel, f.smt(), Zel)],
                  '|f(0) - Z| <= 0.1 (Z=%d)' % Zel, lambda sv: num_f0(el, Zel), pin=pin)
        # (c) positivity on [0,2]
        query('C16/%s/positive' % el, ['(>= s 0.0)', '(<= s 2.0)', '(<= %s 0.0)' % f.smt()], 'f(s) > 0 on [0,2]', lambda sv: num_pos(el, sv),
              interval=(0.0, 2.0, '(<= %s 0.0)' % f.smt()))
        # (d) strictly decreasing on (0,2]
        df = f.d('s')
        query('C16/%s/decreasing' % el, ['(> s 0.0)', '(<= s 2.0)', '(>= %s 0.0)' % df.smt()], 'df/ds < 0 on (0,2]', lambda sv: num_dec(el, sv),
              interval=(0.0, 2.0, '(>= %s 0.0)' % df.smt()))


_KNOWN = None


def known_f0(el):
    """pin value of a listed finding (the f(0) the table currently yields), from known_findings.json"""
    global _KNOWN
    if _KNOWN is None:
        from vengine import core
        _KNOWN = {e['key']: e for e in core.load_known('C16')}
    e = _KNOWN.get('C16/%s/f0' % el)
    if e and e.get('status') == 'known' and 'f0' in e:
        return Fraction(str(e['f0']))
    return None


def num_formula(el, sv):
    from xfab import structure, atomlib
    d = atomlib.formfactor[el]
    ref = sum(d[i] * math.exp(-d[i + 4] * sv * sv) for i in range(4)) + d[8]
    got = structure.FormFactor(el, sv)
    bad = abs(got - ref) > 1e-9 * max(1, abs(ref))
    return bad, {'kind': 'formula', 'el': el, 's': sv}, 'FormFactor(%s,%g)=%r expected %r' % (el, sv, got, ref)


def num_f0(el, Zel):
    from xfab import structure
    got = structure.FormFactor(el, 0.0)
    return abs(got - Zel) > 0.1, {'kind': 'f0', 'el': el, 'Z': Zel}, 'FormFactor(%s,0)=%.5f but Z=%d' % (el, got, Zel)


def num_pos(el, sv):
    from xfab import structure
    got = structure.FormFactor(el, sv)
    return got <= 0, {'kind': 'positive', 'el': el, 's': sv}, 'FormFactor(%s,%g)=%r' % (el, sv, got)


def num_dec(el, sv):
    from xfab import structure
    h = 1e-6
    a, b = structure.FormFactor(el, max(sv - h, 0.0)), structure.FormFactor(el, sv + h)
    return b >= a, {'kind': 'decreasing', 'el': el, 's': sv}, 'FormFactor(%s,.) not decreasing at s=%g: f(s-h)=%r f(s+h)=%r' % (el, sv, a, b)


def replay(rec):
    r = rec['replay']
    k = r['kind']
    if k == 'formula':
        ok, _, t = num_formula(r['el'], r['s'])
    elif k == 'f0':
        ok, _, t = num_f0(r['el'], r['Z'])
    elif k == 'positive':
        ok, _, t = num_pos(r['el'], r['s'])
    elif k == 'decreasing':
        ok, _, t = num_dec(r['el'], r['s'])
    else:
        from xfab import atomlib
        ok, t = set(atomlib.formfactor) != set(ELS), 'key set'
    return bool(ok), t
