"""C07 / C08 — structure factors: covariance under the space-group operations (C07) and equality with the explicit
unit-cell sum and its consequences (C08).  One harness, two property ids (props/c08.py re-exports with PID='C08')."""
import importlib
import itertools
import math
from fractions import Fraction

import numpy as np
import z3

from vengine.field import Field, Q, lift, EngineError
from vengine.explore import Ctx
from vengine import smt, core
from vengine.symnp import patched, SYMNP
from vengine.phase import Turn, ExpPool
from . import common as C
from .c04 import snap24, RHOMB

PID = 'C07'
NEXP = 40
META = {
    'explanation': 'The real StructureFactor / Uij2betaij / FormFactor run on one symbolic atom: fractional position (x,y,z) as Turn objects (phases '
                   '2*pi*(m.x + c) expand into polynomials of cos/sin 2*pi*x,y,z; constants that are multiples of 1/12 turn are exact in Q(sqrt 3)), '
                   'symbolic occupancy, site multiplicity, Uiso or six Uani components, symbolic dispersion (f\',f\'\'), form factor = the real '
                   'FormFactor expression with exp() as uninterpreted atoms keyed by their normalised argument.  hkl is concrete (box), the reciprocal '
                   'metric is symbolic inside the family of the crystal system.  tools.sintl and tools.cell_invert are replaced by their C01 summaries '
                   '(stl^2 = h.G*.h/4; reciprocal lengths).  C07: F(hR) = F(h).exp(-2 pi i h.t) for every operation (R,t) and box hkl, extinct hkl => F=0, '
                   'Friedel pair without dispersion.  C08: F equals the harness\'s explicit sum over image atoms (R.x+t, tensor R.beta.R^T), lattice-shift '
                   'invariance, linearity in occupancy, Uiso == equivalent Uani, F(000) with zero ADP.',
    'functions': ['xfab.structure.StructureFactor', 'xfab.structure.Uij2betaij', 'xfab.structure.FormFactor', 'xfab.sg.sg.__init__'],
    'bounds': {'hkl': 'concrete box |h|_inf <= 1 (thorough: also box 2 for the quick selection of groups), plus (0,0,l),(h,0,0),(0,k,0) axis reflections up to 6', 'atoms': '1 symbolic atom (F is additive over atoms)',
               'groups': 'quick: one per Laue class and centring + trigonal/hexagonal/tetragonal groups with non-symmetric rotation matrices; thorough: all 230'},
    'outside_claim': ['hkl outside the box', 'rounding of tabulated thirds (idealised to exact twelfths on both sides)', 'interaction between several atoms beyond additivity'],
    'stubs': ['tools.sintl -> summary sqrt(h.G*.h)/2 (C01 lemma)', 'tools.cell_invert -> reciprocal lengths (C01)', 'numpy.exp -> uninterpreted atoms (congruence)',
              'cos/sin(2 pi Turn) -> trig polynomials'],
    'assumptions': ['C01: sintl^2 = h.G*.h/4 and cell_invert returns the reciprocal cell', 'C04: rotations preserve every conforming metric'],
}

QUICK_GROUPS = ['P1', 'P-1', 'P21/c', 'C2/c', 'Pnma', 'Fddd', 'P4', 'P41', 'P4/n', 'I41/a', 'P42/mnm', 'P3', 'P31', 'R-3', 'P321', 'P-3m1', 'P3121', 'R-3c',
                'P6', 'P61', 'P63/m', 'P6122', 'P63/mmc', 'P213', 'Pa-3', 'I-43d', 'Pm-3m']
HEAVY = ['Fd-3m', 'Ia-3d', 'Fm-3c']


def all_group_names():
    from xfab import sg as sgmod
    names = {}
    for key, klass in sgmod.sgdic.items():
        no = int(klass[2:])
        if no not in names or len(key) < len(names[no]):
            if not (key[0] == 'r' and key[-1] in 'hr' and len(key) > 2 and key[:-1] in sgmod.sgdic):
                names[no] = key
    return [names[n] for n in sorted(names)]


def units(tier):
    groups = list(QUICK_GROUPS) if tier == 'quick' else all_group_names()
    us = []
    for g in groups:
        for adp in ('Uiso', 'Uani'):
            us.append({'name': '%s/%s' % (g, adp), 'sg': g, 'adp': adp, 'cost': 1})
    if tier != 'quick':
        # thorough: every group at box 1 (above) and the quick selection again at box 2
        for g in QUICK_GROUPS:
            us.append({'name': '%s/Uani/box2' % g, 'sg': g, 'adp': 'Uani', 'box2': True, 'cost': 5})
    if tier == 'quick':
        us.append({'name': 'Fd-3m/Uani', 'sg': 'Fd-3m', 'adp': 'Uani', 'few': True})
    us.append({'name': 'P21/c/None', 'sg': 'P21/c', 'adp': None})
    return us


class SqrtSym:
    """summary value of sintl: coef*sqrt(sq); only products that eliminate the root are supported (StructureFactor / FormFactor use stl**2 and stl*stl)"""

    def __init__(self, sq, coef=1):
        self.sq = lift(sq)
        self.coef = lift(coef)

    def __pow__(self, k):
        if k == 2:
            return self.coef * self.coef * self.sq
        raise EngineError('SqrtSym ** %r' % (k,))

    def __neg__(self):
        return SqrtSym(self.sq, -self.coef)

    def __mul__(self, o):
        if isinstance(o, SqrtSym):
            if (o.sq - self.sq).iszero():
                return self.coef * o.coef * self.sq
            raise EngineError('product of different sintl values')
        if isinstance(o, np.ndarray):
            return NotImplemented
        try:
            return SqrtSym(self.sq, self.coef * lift(o))
        except TypeError:
            return NotImplemented
    __rmul__ = __mul__


def family_metric(f, crystal_system, cell_choice):
    """reciprocal metric G* (3x3 of Q) and reciprocal lengths inside the family of the crystal system"""
    v = f.var
    a, b, c = v('as'), v('bs'), v('cs')
    ca, cb, cg = v('cas'), v('cbs'), v('cgs')
    half = Fraction(1, 2)
    if cell_choice == 'rhombohedral':
        L = [a, a, a]
        cosv = [ca, ca, ca]
    elif crystal_system == 'triclinic':
        L, cosv = [a, b, c], [ca, cb, cg]
    elif crystal_system == 'monoclinic':
        L, cosv = [a, b, c], [0, cb, 0]
    elif crystal_system == 'orthorhombic':
        L, cosv = [a, b, c], [0, 0, 0]
    elif crystal_system == 'tetragonal':
        L, cosv = [a, a, c], [0, 0, 0]
    elif crystal_system in ('trigonal', 'hexagonal'):
        L, cosv = [a, a, c], [0, 0, half]          # gamma* = 60 deg
    elif crystal_system == 'cubic':
        L, cosv = [a, a, a], [0, 0, 0]
    else:
        raise EngineError('crystal system %r' % crystal_system)
    G = np.empty((3, 3), dtype=object)
    for i in range(3):
        G[i, i] = lift(L[i] * L[i])
    G[1, 2] = G[2, 1] = lift(L[1] * L[2] * cosv[0])
    G[0, 2] = G[2, 0] = lift(L[0] * L[2] * cosv[1])
    G[0, 1] = G[1, 0] = lift(L[0] * L[1] * cosv[2])
    return G, L


def box(tier, few=False):
    n = 1 if tier == 'quick' else 2
    hs = [h for h in itertools.product(range(-n, n + 1), repeat=3)]
    if few:
        return [(0, 0, 0), (1, 1, 1), (2, 0, 0), (2, 2, 0), (1, -1, 1), (3, 1, 1)]
    for k in (2, 3, 4, 6):
        hs += [(0, 0, k), (k, 0, 0), (0, k, 0)]
    out = []
    for h in hs:
        if h not in out:
            out.append(h)
    return out


class Atom:
    pass


def run_unit(u, desc, tier, seed):
    from xfab import structure, tools, sg as sgmod
    sgname, adp = desc['sg'], desc['adp']
    s = sgmod.sg(sgname=sgname)
    nop = int(s.nsymop)
    names = ['pi', 'r3', 'as', 'bs', 'cs', 'cas', 'cbs', 'cgs', 'cx', 'sx', 'cy', 'sy', 'cz', 'sz', 'o', 'sm', 'fp', 'fpp', 'u',
             'U11', 'U22', 'U33', 'U23', 'U13', 'U12'] + ['E%d' % i for i in range(NEXP)]
    f = Field(names, naux=2)
    f.positive('pi', 'r3', 'as', 'bs', 'cs')
    f.relation('r3', f.R(3))
    for c_, s_ in (('cx', 'sx'), ('cy', 'sy'), ('cz', 'sz')):
        f.angle(c_, s_)
    ctx = Ctx(f)
    zc = ctx.zc
    v = f.var
    Gs, L = family_metric(f, s.crystal_system, s.cell_choice)
    pool = ExpPool(f)
    cell_token = ['cell-token']

    def sintl_summary(cell, hkl):
        h = [int(x) for x in hkl]
        q = lift(0)
        for i in range(3):
            for j in range(3):
                q = q + h[i] * h[j] * Gs[i, j]
        return SqrtSym(q * Fraction(1, 4))

    def cell_invert_summary(cell):
        return [lift(L[0]), lift(L[1]), lift(L[2]), None, None, None]
    rows = []
    for R, t in zip(np.asarray(s.rot), np.asarray(s.trans)):
        ks = [snap24(x)[0] for x in t]
        rows.append(([[int(round(x)) for x in r] for r in R], [Fraction(k, 24) for k in ks]))
    at = Atom()
    at.pos = [Turn.coord('x'), Turn.coord('y'), Turn.coord('z')]
    at.atomtype = 'FE'
    at.occ = v('o')
    at.symmulti = v('sm')
    at.label = 'Fe1'
    if adp == 'Uiso':
        at.adp_type, at.adp = 'Uiso', v('u')
    elif adp == 'Uani':
        at.adp_type, at.adp = 'Uani', [v(n) for n in ('U11', 'U22', 'U33', 'U23', 'U13', 'U12')]
    else:
        at.adp_type, at.adp = None, 0.0
    disper = {'FE': [v('fp'), v('fpp')]}
    cache = {}

    def Fcalc(h, atom=at, disp=disper):
        key = (tuple(h), id(atom), id(disp))
        if key not in cache:
            old = SYMNP.exp_pool
            SYMNP.exp_pool = pool
            try:
                with patched(structure, tools, extra=None):
                    o_s, o_c = tools.sintl, tools.cell_invert
                    tools.sintl, tools.cell_invert = sintl_summary, cell_invert_summary
                    try:
                        Fr, Fi = structure.StructureFactor(list(h), cell_token, sgname, [atom], disp)
                    finally:
                        tools.sintl, tools.cell_invert = o_s, o_c
            finally:
                SYMNP.exp_pool = old
            cache[key] = (lift(Fr), lift(Fi))
        return cache[key]

    hs = box('thorough' if desc.get('box2') else 'quick', desc.get('few', False))
    pre = ctx.base()
    u.paths = 1

    def phase_const(h, t):
        c = sum(Fraction(h[i]) * t[i] for i in range(3))
        from vengine.phase import _const_cs, _snap
        return _const_cs(_snap(c))

    def mk_rp(kind, h, extra=None):
        def replay(model):
            env = C.env_from_model(f, model or {})
            rec = concretize(env, sgname, adp, kind, h, extra)
            ok, text = numeric(rec)
            return ok, rec, text
        return replay

    def oracle(h):
        """explicit sum over the image atoms written independently: position R.x+t, tensor of the image atom R.beta.R^T"""
        SYMNP.exp_pool = pool
        try:
            hq = sum(int(h[i]) * int(h[j]) * Gs[i, j] for i in range(3) for j in range(3)) * Fraction(1, 4)
            fdat = __import__('xfab.atomlib', fromlist=['x']).formfactor['FE']
            ff = lift(Fraction(repr(float(fdat[8]))))
            for i in range(4):
                ff = ff + Fraction(repr(float(fdat[i]))) * pool.exp(-(Fraction(repr(float(fdat[i + 4]))) * hq))
            pi = v('pi')
            Fr, Fi = lift(0), lift(0)
            if adp == 'Uani':
                U6 = at.adp
                Um = [[U6[0], U6[5], U6[4]], [U6[5], U6[1], U6[3]], [U6[4], U6[3], U6[2]]]
                beta = [[2 * pi * pi * lift(L[i]) * lift(L[j]) * Um[i][j] for j in range(3)] for i in range(3)]
            for R, t in rows:
                ph = sum(int(h[i]) * (sum(R[i][j] * at.pos[j] for j in range(3)) + t[i]) for i in range(3))
                from vengine.phase import Phase
                c_, s_ = Phase(ph if isinstance(ph, Turn) else Turn({}, Fraction(ph))).cs()
                if adp == 'Uiso':
                    dw = pool.exp(-8 * pi * pi * v('u') * hq)
                elif adp == 'Uani':
                    hR = [sum(int(h[i]) * R[i][j] for i in range(3)) for j in range(3)]
                    arg = lift(0)
                    for i in range(3):
                        for j in range(3):
                            arg = arg + hR[i] * hR[j] * beta[i][j]
                    dw = pool.exp(-arg)
                else:
                    dw = lift(1)
                w = v('o') * v('sm') / nop
                Fr = Fr + dw * (c_ * (ff + v('fp')) - s_ * v('fpp')) * w
                Fi = Fi + dw * (s_ * (ff + v('fp')) + c_ * v('fpp')) * w
            return Fr, Fi
        finally:
            SYMNP.exp_pool = None

    nob = 0
    ext_seen = 0
    # one representative per orbit of the box under the rotations (covariance from the representative covers the orbit, C04 closure);
    # exp atoms and the F cache are reset per orbit so that the generator pool stays small
    reps = []
    seen_orb = set()
    for h in hs:
        if tuple(h) in seen_orb:
            continue
        reps.append(h)
        for R, t in rows:
            seen_orb.add(tuple(sum(h[i] * R[i][j] for i in range(3)) for j in range(3)))
            seen_orb.add(tuple(-sum(h[i] * R[i][j] for i in range(3)) for j in range(3)))
    hs = reps
    for h in hs:
        pool.used.clear()
        pool.args.clear()
        cache.clear()
        Fr, Fi = Fcalc(h)
        # C08: explicit sum
        if PID == 'C08':
            Or, Oi = oracle(h)
            u.prove('C08/%s/%s/explicit-sum' % (sgname, adp), pre, C.resid_goal(zc, [Fr - Or, Fi - Oi]), replay=mk_rp('sum', h),
                    detail='F(%s) equals the explicit sum over the %d image atoms' % (list(h), nop), sample=(nob == 0))
            nob += 1
            continue
        # C07: covariance for every operation
        resid = []
        worst = None
        seenR = set()
        extinct = False
        for R, t in rows:
            hR = tuple(sum(h[i] * R[i][j] for i in range(3)) for j in range(3))
            ht = sum(Fraction(h[i]) * t[i] for i in range(3))
            if hR == tuple(h) and ht.denominator != 1:
                extinct = True
            key = (hR, ht % 1)
            if key in seenR:
                continue
            seenR.add(key)
            if max(abs(x) for x in hR) > 6:
                continue
            F2r, F2i = Fcalc(hR)
            ct, st_ = phase_const(h, t)
            r1 = F2r - (Fr * ct + Fi * st_)
            r2 = F2i - (Fi * ct - Fr * st_)
            if not (r1.iszero() and r2.iszero()) and worst is None:
                worst = (R, [str(x) for x in t])
            resid += [r1, r2]
        if nob < 6:
            # the same law with disper=None (a separate branch of the code)
            r0 = Fcalc(h, at, None)
            resid0 = []
            seen0 = set()
            for R, t in rows:
                hR = tuple(sum(h[i] * R[i][j] for i in range(3)) for j in range(3))
                ht = sum(Fraction(h[i]) * t[i] for i in range(3))
                if (hR, ht % 1) in seen0 or max(abs(x) for x in hR) > 6:
                    continue
                seen0.add((hR, ht % 1))
                f2 = Fcalc(hR, at, None)
                ct, st_ = phase_const(h, t)
                resid0 += [f2[0] - (r0[0] * ct + r0[1] * st_), f2[1] - (r0[1] * ct - r0[0] * st_)]
            u.prove('C07/%s/%s/covariance[no dispersion]' % (sgname, adp), pre, C.resid_goal(zc, resid0), replay=mk_rp('cov0', h),
                    detail='F(hR) = F(h).exp(-2 pi i h.t) with disper=None at h=%s (%d non-zero residuals)' % (list(h), C.nz_count(resid0)), timeout=30)
        u.prove('C07/%s/%s/covariance' % (sgname, adp), pre, C.resid_goal(zc, resid), replay=mk_rp('cov', h, worst),
                detail='F(hR) = F(h).exp(-2 pi i h.t) for all %d operations at h=%s (%d non-zero residuals)' % (len(rows), list(h), C.nz_count(resid)),
                sample=(nob == 0), timeout=30)
        nob += 1
        if extinct:
            ext_seen += 1
            u.prove('C07/%s/%s/extinct=>F=0' % (sgname, adp), pre, C.resid_goal(zc, [Fr, Fi]), replay=mk_rp('ext', h),
                    detail='h=%s is extinguished by the operators, so F must vanish identically' % (list(h),))
    if PID == 'C07':
        # Friedel without dispersion
        for h in hs[:14]:
            pool.used.clear()
            pool.args.clear()
            cache.clear()
            a1 = Fcalc(h, at, None)
            a2 = Fcalc(tuple(-x for x in h), at, None)
            u.prove('C07/%s/%s/friedel' % (sgname, adp), pre, C.resid_goal(zc, [a1[0] - a2[0], a1[1] + a2[1]]), replay=mk_rp('friedel', h),
                    detail='without dispersion F(-h) = conj F(h) at h=%s' % (list(h),))
    else:
        # lattice shift, linearity in occupancy, F(000) with zero ADP, Uiso == equivalent Uani
        at2 = Atom()
        at2.__dict__.update(at.__dict__)
        at2.pos = [at.pos[0] + 1, at.pos[1] - 2, at.pos[2] + 3]
        at3 = Atom()
        at3.__dict__.update(at.__dict__)
        at3.occ = 1
        for h in hs[:10]:
            pool.used.clear()
            pool.args.clear()
            cache.clear()
            a1, a2, a3 = Fcalc(h), Fcalc(h, at2), Fcalc(h, at3)
            u.prove('C08/%s/%s/lattice-shift' % (sgname, adp), pre, C.resid_goal(zc, [a1[0] - a2[0], a1[1] - a2[1]]), replay=mk_rp('shift', h), detail='x -> x+(1,-2,3) at h=%s' % (list(h),))
            u.prove('C08/%s/%s/linear-in-occupancy' % (sgname, adp), pre, C.resid_goal(zc, [a1[0] - v('o') * a3[0], a1[1] - v('o') * a3[1]]), replay=mk_rp('occ', h), detail='F(o) = o.F(1) at h=%s' % (list(h),))
        if adp is not None:
            # additivity over a mixed atom list: atom A (this unit's ADP type) followed by atom B without ADP
            atB = Atom()
            atB.__dict__.update(at.__dict__)
            atB.pos = [at.pos[0] + Fraction(1, 4), at.pos[1], at.pos[2] + Fraction(1, 2)]
            atB.adp_type, atB.adp = None, 0.0
            atB2 = Atom()
            atB2.__dict__.update(atB.__dict__)
            for h in hs[1:5]:
                pool.used.clear()
                pool.args.clear()
                cache.clear()
                old = SYMNP.exp_pool
                SYMNP.exp_pool = pool
                try:
                    with patched(structure, tools):
                        o_s, o_c = tools.sintl, tools.cell_invert
                        tools.sintl, tools.cell_invert = sintl_summary, cell_invert_summary
                        try:
                            both = structure.StructureFactor(list(h), cell_token, sgname, [at, atB], disper)
                            atB.adp_type, atB.adp = None, 0.0
                        finally:
                            tools.sintl, tools.cell_invert = o_s, o_c
                finally:
                    SYMNP.exp_pool = old
                a1, a2 = Fcalc(h), Fcalc(h, atB2)
                u.prove('C08/%s/%s/additive-over-atoms' % (sgname, adp), pre, C.resid_goal(zc, [lift(both[0]) - a1[0] - a2[0], lift(both[1]) - a1[1] - a2[1]]),
                        replay=mk_rp('twoatom', h), detail='F([A(%s), B(no ADP)]) = F([A]) + F([B]) at h=%s' % (adp, list(h)))
        if adp is None:
            pool.used.clear()
            pool.args.clear()
            cache.clear()
            F0 = Fcalc((0, 0, 0))
            fdat = __import__('xfab.atomlib', fromlist=['x']).formfactor['FE']
            f0 = sum(Fraction(repr(float(x))) for x in fdat[:4]) + Fraction(repr(float(fdat[8])))
            u.prove('C08/%s/None/F000' % sgname, pre, C.resid_goal(zc, [F0[0] - v('o') * v('sm') * (lift(f0) + v('fp')), F0[1] - v('o') * v('sm') * v('fpp')]),
                    replay=mk_rp('f000', (0, 0, 0)), detail='zero ADP: F(000) = occ.symmulti.(f(0)+f\'+i f\'\')')
        if adp == 'Uani':
            # isotropic motion expressed as a tensor: U_ij = u G*_ij/(a*_i a*_j)
            at4 = Atom()
            at4.__dict__.update(at.__dict__)
            uu = v('u')
            Ue = [[uu * Gs[i, j] / (lift(L[i]) * lift(L[j])) for j in range(3)] for i in range(3)]
            at4.adp = [Ue[0][0], Ue[1][1], Ue[2][2], Ue[1][2], Ue[0][2], Ue[0][1]]
            at5 = Atom()
            at5.__dict__.update(at.__dict__)
            at5.adp_type, at5.adp = 'Uiso', uu
            for h in hs[:10]:
                pool.used.clear()
                pool.args.clear()
                cache.clear()
                a4, a5 = Fcalc(h, at4), Fcalc(h, at5)
                u.prove('C08/%s/Uani/Uiso==equivalent-Uani' % sgname, pre, C.resid_goal(zc, [a4[0] - a5[0], a4[1] - a5[1]]), replay=mk_rp('isoeq', h),
                        detail='isotropic U and the tensor of the same isotropic motion give the same F at h=%s' % (list(h),))
    u.notes.append('%s %s: %d box reflections, %d extinct ones, %d exp atoms' % (sgname, adp, len(hs), ext_seen, len(pool.used)))
    # translator validation: symbolic F at a random point vs the real function with real numpy
    rec = concretize(C.env_from_model(f, {}), sgname, adp, 'eval', hs[min(5, len(hs) - 1)], None)
    try:
        env = env_from_rec(f, rec)
        pool.used.clear()
        pool.args.clear()
        cache.clear()
        Fr, Fi = Fcalc(tuple(rec['h']))
        got = real_F(rec, rec['h'])
        pool_env = dict(env)
        for nm, arg in pool.args.items():
            pool_env[nm] = math.exp(C.evalq(arg, pool_env, f))
        if abs(C.evalq(Fr, pool_env, f) - got[0]) < 2e-4 * (1 + abs(got[0])) and abs(C.evalq(Fi, pool_env, f) - got[1]) < 2e-4 * (1 + abs(got[1])):     # 6-digit thirds of the tables are idealised
            u.validated += 1
        else:
            u.add('%s/%s/%s/translator' % (PID, sgname, adp), 'error', 'symbolic F %r differs from real F %r at %s' % ((C.evalq(Fr, pool_env, f), C.evalq(Fi, pool_env, f)), got, rec['h']))
    except Exception as e:
        u.notes.append('translator validation skipped: %r' % (e,))


# ------------------------------------------------------------------------------------------------
# concrete side

def cell_for(crystal_system, cell_choice):
    from .c05 import CELLS
    return CELLS['rhombohedral' if cell_choice == 'rhombohedral' else crystal_system]


def concretize(env, sgname, adp, kind, h, extra):
    return {'sg': sgname, 'adp': adp, 'kind': kind, 'h': [int(x) for x in h], 'extra': extra,
            'pos': [0.1234 + 0.05 * env.get('cx', 0.3), 0.2718 - 0.04 * env.get('cy', 0.3), 0.3141 + 0.03 * env.get('cz', 0.3)],
            'occ': 0.8, 'sm': 1.0, 'u': 0.02, 'Uani': [0.021, 0.034, 0.015, 0.004, -0.006, 0.009], 'fp': 0.31, 'fpp': 0.72}


def env_from_rec(f, rec):
    from xfab import sg as sgmod, tools
    s = sgmod.sg(sgname=rec['sg'])
    cell = cell_for(s.crystal_system, s.cell_choice)
    cs = tools.cell_invert(cell)
    env = {'pi': math.pi, 'r3': math.sqrt(3), 'as': cs[0], 'bs': cs[1], 'cs': cs[2], 'cas': math.cos(math.radians(cs[3])), 'cbs': math.cos(math.radians(cs[4])),
           'cgs': math.cos(math.radians(cs[5])), 'o': rec['occ'], 'sm': rec['sm'], 'fp': rec['fp'], 'fpp': rec['fpp'], 'u': rec['u']}
    for n, val in zip(('U11', 'U22', 'U33', 'U23', 'U13', 'U12'), rec['Uani']):
        env[n] = val
    for n, x in zip('xyz', rec['pos']):
        env['c' + n] = math.cos(2 * math.pi * x)
        env['s' + n] = math.sin(2 * math.pi * x)
    return env


def real_atoms(rec, pos=None, occ=None, adp_override=None):
    from xfab import structure
    al = structure.atomlist()
    adp_type = rec['adp']
    adp = rec['u'] if adp_type == 'Uiso' else (list(rec['Uani']) if adp_type == 'Uani' else 0.0)
    if adp_override is not None:
        adp_type, adp = adp_override
    al.add_atom(label='Fe1', atomtype='FE', pos=list(pos if pos is not None else rec['pos']), adp_type=adp_type, adp=adp,
                occ=rec['occ'] if occ is None else occ, symmulti=rec['sm'])
    return al.atom


def real_F(rec, h, disp=True, **kw):
    from xfab import structure, sg as sgmod
    s = sgmod.sg(sgname=rec['sg'])
    cell = cell_for(s.crystal_system, s.cell_choice)
    d = {'FE': [rec['fp'], rec['fpp']]} if disp else None
    Fr, Fi = structure.StructureFactor(list(h), cell, rec['sg'], real_atoms(rec, **kw), d)
    return float(Fr), float(Fi)


def numeric(rec, tol=1e-6):
    """concrete check of the same statement on the real code with real numpy (one generic atom)"""
    from xfab import structure, tools, atomlib, sg as sgmod
    s = sgmod.sg(sgname=rec['sg'])
    cell = cell_for(s.crystal_system, s.cell_choice)
    h = rec['h']
    kind = rec['kind']
    rot, trans = np.asarray(s.rot), np.asarray(s.trans)
    scale = 26.0
    try:
        F = complex(*real_F(rec, h))
        if kind == 'cov0':
            F0 = complex(*real_F(rec, h, disp=False))
            worst, wtxt = 0, ''
            for R, t in zip(rot, trans):
                hR = [int(round(x)) for x in np.dot(h, R)]
                t24 = np.round(t * 24) / 24
                F2 = complex(*real_F(rec, hR, disp=False))
                want = F0 * np.exp(-2j * math.pi * np.dot(h, t24))
                if abs(F2 - want) > worst:
                    worst, wtxt = abs(F2 - want), 'no dispersion, op R=%s t=%s: F(hR=%s)=%s expected %s' % (R.tolist(), t.tolist(), hR, F2, want)
            return worst > tol * scale + 1e-4, wtxt
        if kind == 'twoatom':
            from xfab import structure as st_
            cellx = cell
            a1 = real_atoms(rec)
            a2 = real_atoms(rec, pos=[rec['pos'][0] + 0.25, rec['pos'][1], rec['pos'][2] + 0.5], adp_override=(None, 0.0))
            d = {'FE': [rec['fp'], rec['fpp']]}
            both = st_.StructureFactor(list(h), cellx, rec['sg'], list(a1) + list(a2), d)
            one = st_.StructureFactor(list(h), cellx, rec['sg'], list(a1), d)
            two = st_.StructureFactor(list(h), cellx, rec['sg'], list(real_atoms(rec, pos=[rec['pos'][0] + 0.25, rec['pos'][1], rec['pos'][2] + 0.5], adp_override=(None, 0.0))), d)
            dif = abs(complex(*both) - complex(*one) - complex(*two))
            return dif > tol * scale, 'F([A,B])=%s but F([A])+F([B])=%s' % (complex(*both), complex(*one) + complex(*two))
        if kind in ('cov', 'ext'):
            worst = 0
            wtxt = ''
            for R, t in zip(rot, trans):
                hR = [int(round(x)) for x in np.dot(h, R)]
                t24 = np.round(t * 24) / 24
                F2 = complex(*real_F(rec, hR))
                want = F * np.exp(-2j * math.pi * np.dot(h, t24))
                if abs(F2 - want) > worst:
                    worst, wtxt = abs(F2 - want), 'op R=%s t=%s: F(hR=%s)=%s expected %s' % (R.tolist(), t.tolist(), hR, F2, want)
            return worst > tol * scale + 1e-4, wtxt
        if kind == 'friedel':
            a, b = complex(*real_F(rec, h, disp=False)), complex(*real_F(rec, [-x for x in h], disp=False))
            return abs(b - a.conjugate()) > tol * scale, 'F(h)=%s F(-h)=%s' % (a, b)
        if kind == 'shift':
            b = complex(*real_F(rec, h, pos=[rec['pos'][0] + 1, rec['pos'][1] - 2, rec['pos'][2] + 3]))
            return abs(b - F) > tol * scale, 'F=%s shifted %s' % (F, b)
        if kind == 'occ':
            b = complex(*real_F(rec, h, occ=1.0))
            return abs(F - rec['occ'] * b) > tol * scale, 'F(o)=%s o.F(1)=%s' % (F, rec['occ'] * b)
        if kind == 'isoeq':
            cs = tools.cell_invert(cell)
            ca = [math.cos(math.radians(x)) for x in cs[3:]]
            Gs = np.array([[cs[0] ** 2, cs[0] * cs[1] * ca[2], cs[0] * cs[2] * ca[1]], [cs[0] * cs[1] * ca[2], cs[1] ** 2, cs[1] * cs[2] * ca[0]],
                           [cs[0] * cs[2] * ca[1], cs[1] * cs[2] * ca[0], cs[2] ** 2]])
            Ue = rec['u'] * Gs / np.outer(cs[:3], cs[:3])
            a = complex(*real_F(rec, h, adp_override=('Uani', [Ue[0, 0], Ue[1, 1], Ue[2, 2], Ue[1, 2], Ue[0, 2], Ue[0, 1]])))
            b = complex(*real_F(rec, h, adp_override=('Uiso', rec['u'])))
            return abs(a - b) > tol * scale, 'Uani-equivalent %s vs Uiso %s' % (a, b)
        if kind == 'f000':
            d = atomlib.formfactor['FE']
            want = rec['occ'] * rec['sm'] * complex(sum(d[:4]) + d[8] + rec['fp'], rec['fpp'])
            b = complex(*real_F(rec, [0, 0, 0], adp_override=(None, 0.0)))
            return abs(b - want) > tol * scale, 'F(000)=%s expected %s' % (b, want)
        if kind == 'sum':
            stl = tools.sintl(cell, h)
            ff = structure.FormFactor('FE', stl)
            cs = tools.cell_invert(cell)
            tot = 0j
            for R, t in zip(rot, trans):
                t24 = np.round(t * 24) / 24
                r = R @ np.array(rec['pos']) + t24
                if rec['adp'] == 'Uiso':
                    dw = math.exp(-8 * math.pi ** 2 * rec['u'] * stl ** 2)
                elif rec['adp'] == 'Uani':
                    U6 = rec['Uani']
                    Um = np.array([[U6[0], U6[5], U6[4]], [U6[5], U6[1], U6[3]], [U6[4], U6[3], U6[2]]])
                    beta = 2 * math.pi ** 2 * np.outer(cs[:3], cs[:3]) * Um
                    hR = np.dot(h, R)
                    dw = math.exp(-hR @ beta @ hR)
                else:
                    dw = 1.0
                tot += rec['occ'] * rec['sm'] / len(rot) * complex(ff + rec['fp'], rec['fpp']) * dw * np.exp(2j * math.pi * np.dot(h, r))
            return abs(F - tot) > tol * scale + 1e-4, 'StructureFactor=%s explicit sum=%s' % (F, tot)
    except Exception as e:
        return True, 'exception %r' % (e,)
    return False, 'unknown kind'


def replay(rec):
    ok, text = numeric(rec['replay'])
    return ok, text
