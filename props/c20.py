"""C20 — input checks reject exactly the invalid inputs, and only while switched on."""
import importlib
import math
from fractions import Fraction

import numpy as np
import z3

from vengine.field import Field, Q, lift, EngineError
from vengine.angle import Angle
from vengine.explore import Ctx
from vengine import smt, core
from vengine.symnp import patched, SYMNP
from . import common as C
from .c02 import rot_from_quat, quat_floats, QN

META = {
    'explanation': 'checks._check_rotation_matrix/_check_euler_angles/_check_ubi_matrix and the guarded API functions are executed on symbolic inputs; '
                   'numpy.allclose becomes its documented tolerance formula |a-b| <= atol + rtol|b|.  Accept: U = R(q) + E with |E_ij| <= 1e-7 '
                   '(all proper rotations, all perturbations) must pass.  Reject: U = R(q).diag(1,1,-1) (improper) and U = R(q) + e.E_ij with '
                   'e in [1e-3, 1] (a single entry perturbed) must raise ValueError at every guarded entry point; Euler angles outside [0,2pi] '
                   'and left-handed UBIs must be rejected, those inside / right-handed accepted.  Switch: post-state after assigning each of the '
                   'enumerated Python objects from a symbolic pre-state; guarded functions with the switch off return the same expressions.',
    'functions': ['xfab.checks._check_rotation_matrix', 'xfab.checks._check_euler_angles', 'xfab.checks._check_ubi_matrix', 'xfab.checks._checkState',
                  'xfab.tools.u_to_rod', 'xfab.tools.u_to_ubi', 'xfab.tools.u_to_euler', 'xfab.tools.ubi_to_u', 'xfab.tools.euler_to_u',
                  'xfab.laue.u_to_rod', 'xfab.laue.u_to_ubi', 'xfab.laue.u_to_euler', 'xfab.laue.ubi_to_u', 'xfab.laue.euler_to_u', 'xfab.symmetry.Umis'],
    'bounds': {'valid': 'every proper rotation + entrywise perturbation <= 1e-7', 'invalid': 'improper rotations; one entry perturbed by 1e-3..1',
               'switch values': 'True, False, 0, 1, None, "True", numpy.True_, [] (identity tests `is True` cannot be symbolic: values are enumerated, the pre-state is symbolic)'},
    'outside_claim': ['python -O (__debug__ False)', 'binary64 rounding inside allclose'],
    'stubs': ['numpy.allclose -> tolerance formula', 'linalg.det closed form'],
    'assumptions': ['exact real arithmetic'],
}
EN = ['e%d%d' % (i, j) for i in range(3) for j in range(3)]


def units(tier):
    us = [{'name': 'accept-perturbed-rotation', 'group': 'accept'}, {'name': 'reject-improper', 'group': 'improper'}]
    for k in range(9):
        us.append({'name': 'reject-entry%d%d' % (k // 3, k % 3), 'group': 'reject', 'entry': k})
    us += [{'name': 'euler-angles', 'group': 'euler'}, {'name': 'ubi-handedness', 'group': 'ubi'}, {'name': 'switch', 'group': 'switch'},
           {'name': 'guards/tools', 'group': 'guards', 'module': 'tools'}, {'name': 'guards/laue', 'group': 'guards', 'module': 'laue'}]
    return us


def call_check(fn, *a):
    try:
        fn(*a)
        return None
    except ValueError as e:
        return e


def run_unit(u, desc, tier, seed):
    import xfab
    from xfab import checks, tools, laue, symmetry
    group = desc['group']
    xfab.CHECKS.activated = True
    qt = 30 if tier == 'quick' else 240
    if group == 'switch':
        return run_switch(u)
    if group in ('accept', 'improper', 'reject'):
        names = QN + (EN if group == 'accept' else (['e'] if group == 'reject' else []))
        f = Field(names, naux=2)
        C.quat_setup(f)
        ctx = Ctx(f)
        zc = ctx.zc
        v = f.var
        R = C.quat_rot(f)
        pre = []
        if group == 'accept':
            E = C.oa([[v('e%d%d' % (i, j)) for j in range(3)] for i in range(3)])
            eps = lift(Fraction(1, 10 ** 7))
            for n in EN:
                pre += [zc.cmp0(v(n) - eps, '<='), zc.cmp0(v(n) + eps, '>=')]
            for n in QN[1:]:
                pre += [zc.cmp0(v(n) - 1, '<='), zc.cmp0(v(n) + 1, '>=')]
            U = R + E
        elif group == 'improper':
            U = np.dot(R, C.oa([[1, 0, 0], [0, 1, 0], [0, 0, -1]]))
        else:
            k = desc['entry']
            U = R.copy()
            U[k // 3, k % 3] = U[k // 3, k % 3] + v('e')
            pre += [zc.cmp0(v('e') - Fraction(1, 1000), '>='), zc.cmp0(v('e') - 1, '<=')]
        ctx.pre = pre

        def body():
            with patched(checks):
                return call_check(checks._check_rotation_matrix, U)
        leaves, exh = ctx.explore(body, max_paths=16)
        u.exhaustive = exh
        u.decisions = ctx.decisions
        want_accept = (group == 'accept')
        lemma = []
        if group == 'accept':
            lemma = accept_certificates(u, f, ctx, R, E, U)
        for li, leaf in enumerate(leaves):
            u.paths += 1
            tag = '/p' + ''.join('T' if d else 'F' for d in leaf['trace'])
            raised = leaf['result'] is not None or leaf['exception'] is not None
            pre_l = ctx.base() + leaf['pc']
            if raised == (not want_accept):
                # outcome as required on this path; the path itself is part of the exploration
                u.prove('C20/_check_rotation_matrix/%s%s' % (desc['name'], tag), pre_l, z3.BoolVal(True), replay=None,
                        detail='%s on this path' % ('accepted' if want_accept else 'rejected'), sample=(li == 0))
            else:
                # the wrong outcome must be infeasible
                u.prove('C20/_check_rotation_matrix/%s' % desc['name'], pre_l + lemma, z3.BoolVal(False), replay=mk_replay_rot(f, group, desc.get('entry')),
                        detail='%s: path %s on which the check %s must be infeasible' % (desc['name'], tag, 'rejects' if want_accept else 'accepts'),
                        timeout=qt, cvc5_timeout=qt, sample=True)
        return
    if group == 'euler':
        return run_euler(u, checks, tier)
    if group == 'ubi':
        return run_ubi(u, checks, tools, tier)
    if group == 'guards':
        return run_guards(u, desc['module'], tier)


def accept_certificates(u, f, ctx, R, E, U):
    """the 13-variable inequalities 'U^T.U within tolerance of I' and '|det U - 1| within tolerance' for U = R(q) + E are `unknown`
    for both solvers; they are decided through certificates: (i) identities on the real expressions that express U^T.U - I and
    det U - 1 as polynomials B(R, E) in the entries of R and E; (ii) |R_ki| <= 1 from the column-norm identity; (iii) abstract
    bounds of B over the box r in [-1,1], e in [-1e-7,1e-7] (fresh variables).  Returns the proved bounds as formulas."""
    zc = ctx.zc
    pre = ctx.base()
    I3 = C.eye3()
    D = np.dot(U.T, U) - I3
    detU = SYMNP.linalg.det(U)
    r = [[z3.Real('ar%d%d' % (k, i)) for i in range(3)] for k in range(3)]
    e = [[z3.Real('ae%d%d' % (k, i)) for i in range(3)] for k in range(3)]
    eps = z3.RealVal('1/10000000')
    box = []
    for k in range(3):
        for i in range(3):
            box += [r[k][i] <= 1, r[k][i] >= -1, e[k][i] <= eps, e[k][i] >= -eps]

    def Bform(Rm, Em, i, j):
        return sum(Rm[k][i] * Em[k][j] + Em[k][i] * Rm[k][j] + Em[k][i] * Em[k][j] for k in range(3))

    def det3(M):
        return (M[0][0] * (M[1][1] * M[2][2] - M[1][2] * M[2][1]) - M[0][1] * (M[1][0] * M[2][2] - M[1][2] * M[2][0])
                + M[0][2] * (M[1][0] * M[2][1] - M[1][1] * M[2][0]))

    def detform(Rm, Em):
        # det(R+E) - det(R) with cof(R) = R:  sum_kj E_kj R_kj + second order + det E
        cols = lambda M, j: [M[k][j] for k in range(3)]
        tot = sum(Em[k][j] * Rm[k][j] for k in range(3) for j in range(3))
        for l in range(3):
            M = [[None] * 3 for _ in range(3)]
            for j in range(3):
                src = Rm if j == l else Em
                for k in range(3):
                    M[k][j] = src[k][j]
            tot = tot + det3(M)
        return tot + det3(Em)
    ident = []
    Rl = [[R[k, i] for i in range(3)] for k in range(3)]
    El = [[E[k, i] for i in range(3)] for k in range(3)]
    for i in range(3):
        for j in range(i, 3):
            ident.append(lift(D[i, j]) - Bform(Rl, El, i, j))
    ident.append(detU - 1 - detform(Rl, El))
    for k in range(3):
        for i in range(3):
            ident.append(1 - R[k, i] ** 2 - R[(k + 1) % 3, i] ** 2 - R[(k + 2) % 3, i] ** 2)
    u.prove('C20/_check_rotation_matrix/accept/certificate-identities', pre, C.resid_goal(zc, ident), replay=None,
            detail='U^T.U - I and det U - 1 as polynomials in the entries of R and E; unit columns of R')
    xz, yz, wz = z3.Reals('cx cy cw')
    u.prove('C20/_check_rotation_matrix/accept/abstract-|R_ki|<=1', [1 - xz * xz == yz * yz + wz * wz], z3.And(xz <= 1, xz >= -1), replay=None, detail='unit column => entries in [-1,1]')
    beta = z3.RealVal('61/100000000')
    okb = True
    for (i, j) in ((0, 0), (0, 1)):
        st = u.prove('C20/_check_rotation_matrix/accept/abstract-bound-UtU[%d,%d]' % (i, j), box, z3.And(Bform(r, e, i, j) <= beta, Bform(r, e, i, j) >= -beta), replay=None,
                     detail='|B_ij(r,e)| <= 6.1e-7 on the box (same polynomial shape for every diagonal resp. off-diagonal entry)', timeout=60)
        okb = okb and st == 'discharged'
    gam = z3.RealVal('91/100000000')
    std = u.prove('C20/_check_rotation_matrix/accept/abstract-bound-det', box, z3.And(detform(r, e) <= gam, detform(r, e) >= -gam), replay=None,
                  detail='|det(R+E) - det R| <= 9.1e-7 on the box', timeout=90, cvc5_timeout=90)
    lem = []
    if okb:
        for i in range(3):
            for j in range(3):
                lem.append(z3.And(zc.cmp0(lift(D[i, j]) - lift(Fraction(61, 10 ** 8)), '<='), zc.cmp0(lift(D[i, j]) + lift(Fraction(61, 10 ** 8)), '>=')))
    if std == 'discharged':
        lem.append(z3.And(zc.cmp0(detU - 1 - lift(Fraction(91, 10 ** 8)), '<='), zc.cmp0(detU - 1 + lift(Fraction(91, 10 ** 8)), '>=')))
    return lem


def run_euler(u, checks, tier):
    """_check_euler_angles: a real number t (in units of radians, compared against 0 and 2*pi)"""
    f = Field(['pi', 't'], naux=1)
    f.positive('pi')
    ctx = Ctx(f)
    zc = ctx.zc
    v = f.var
    ctx.pre = smt.pi_enclosure(zc)
    t = v('t')
    zero = lift(0)
    for pos in range(3):
        args = [zero, zero, zero]
        args[pos] = t

        def body():
            with patched(checks):
                return call_check(checks._check_euler_angles, *args)
        leaves, exh = ctx.explore(body, max_paths=16)
        for li, leaf in enumerate(leaves):
            u.paths += 1
            raised = leaf['result'] is not None
            pre_l = ctx.base() + leaf['pc']
            inside = z3.And(zc.cmp0(t, '>='), zc.cmp0(t - 2 * v('pi'), '<='))
            goal = z3.Not(inside) if raised else inside
            u.prove('C20/_check_euler_angles/arg%d/%s' % (pos, 'raises<=>outside' if raised else 'accepts<=>inside'), pre_l, goal,
                    replay=lambda m, pos=pos: replay_euler(m, pos), detail='argument %d: ValueError exactly when outside [0,2pi]' % pos, sample=(pos == 1))


def replay_euler(model, pos):
    from xfab import checks
    t = float(model.get('t', 0))
    args = [0.0, 0.0, 0.0]
    args[pos] = t
    raised = call_check(checks._check_euler_angles, *args) is not None
    bad = raised != (not (0 <= t <= 2 * math.pi))
    return bad, {'kind': 'euler', 'pos': pos, 't': t}, '_check_euler_angles arg%d=%r raised=%s' % (pos, t, raised)


def run_ubi(u, checks, tools, tier):
    names = ['m%d%d' % (i, j) for i in range(3) for j in range(3)]
    f = Field(names, naux=1)
    ctx = Ctx(f)
    zc = ctx.zc
    v = f.var
    M = C.oa([[v('m%d%d' % (i, j)) for j in range(3)] for i in range(3)])
    det = SYMNP.linalg.det(M)

    def body():
        with patched(checks):
            return call_check(checks._check_ubi_matrix, M)
    leaves, exh = ctx.explore(body, max_paths=8)
    for leaf in leaves:
        u.paths += 1
        raised = leaf['result'] is not None
        pre_l = ctx.base() + leaf['pc']
        goal = zc.cmp0(det, '<') if raised else zc.cmp0(det, '>=')
        u.prove('C20/_check_ubi_matrix/%s' % ('raises<=>left-handed' if raised else 'accepts<=>det>=0'), pre_l, goal, replay=None,
                detail='ValueError exactly for det(ubi) < 0 (rows a,b,c with c.(a x b) < 0)', sample=True)


def run_switch(u):
    """switch semantics: symbolic pre-state in {True, False}, enumerated assigned values"""
    from xfab.checks import _checkState
    vals = [('True', True, True), ('False', False, True), ('0', 0, False), ('1', 1, False), ('None', None, False), ('"True"', 'True', False),
            ('numpy.True_', np.True_, False), ('[]', [], False), ('1.0', 1.0, False)]
    pre_state = z3.Bool('pre')
    for name, val, valid in vals:
        for pre_v in (True, False):
            u.paths += 1
            st = _checkState()
            st._run_checks = pre_v
            raised = False
            try:
                st.activated = val
            except ValueError:
                raised = True
            post = st._run_checks
            expect_post = val if valid else pre_v
            ok = (raised == (not valid)) and (post is expect_post) and (st.activated == (expect_post and __debug__))
            u.prove('C20/switch/assign(%s)/pre=%s' % (name, pre_v), [pre_state == pre_v], z3.BoolVal(bool(ok)),
                    replay=lambda m, name=name, pre_v=pre_v: (True, {'kind': 'switch', 'value': name, 'pre': pre_v}, 'assigning %s from %s: raised=%s post=%r' % (name, pre_v, raised, post)),
                    detail='assigning %s: %s' % (name, 'accepted, state = value' if valid else 'ValueError, state unchanged'), sample=(name == '1'))
    # sequences: after any sequence the state is the last valid value (follows from the single-step facts; checked on all length-3 sequences)
    import itertools
    bad = 0
    n = 0
    for seq in itertools.product(vals, repeat=3):
        st = _checkState()
        last = True
        for name, val, valid in seq:
            try:
                st.activated = val
            except ValueError:
                pass
            if valid:
                last = val
        n += 1
        if st._run_checks is not last:
            bad += 1
    u.prove('C20/switch/sequences-of-3', [], z3.BoolVal(bad == 0), replay=lambda m: (True, {'kind': 'switch-seq'}, '%d of %d sequences end in the wrong state' % (bad, n)),
            detail='%d assignment sequences of length 3: final state = last valid value' % n)


def run_guards(u, modname, tier):
    """every guarded API raises ValueError for an improper rotation / bad angle / left-handed UBI while the switch is on,
    does not raise while it is off, and returns identical expressions for valid inputs in both modes"""
    import xfab
    from xfab import checks, symmetry
    mod = importlib.import_module('xfab.' + modname)
    f = Field(C.CELL_NAMES + ['pi'] + QN, naux=8)
    C.cell_setup(f)
    C.quat_setup(f)
    f.positive('pi')
    ctx = Ctx(f)
    zc = ctx.zc
    ctx.pre = C.cell_pre(zc, f) + smt.pi_enclosure(zc)
    cell = C.cell_of(f)
    R = C.quat_rot(f)
    bad_U = np.dot(R, C.oa([[1, 0, 0], [0, 1, 0], [0, 0, -1]]))
    kap = 2 * f.var('pi') if modname == 'tools' else lift(1)
    calls = {
        'u_to_rod': lambda U: mod.u_to_rod(U),
        'u_to_ubi': lambda U: mod.u_to_ubi(U, cell),
        'u_to_euler': lambda U: mod.u_to_euler(U),
    }
    if modname == 'tools':
        calls['Umis'] = lambda U: symmetry.Umis(U, R, 1)
    for name, fn in calls.items():
        for mode in (True, False):
            u.paths += 1

            def body():
                xfab.CHECKS.activated = mode
                try:
                    with patched(mod, checks, symmetry):
                        try:
                            fn(bad_U)
                            return 'returned'
                        except ValueError as e:
                            return 'ValueError'
                finally:
                    xfab.CHECKS.activated = True
            try:
                leaves, exh = ctx.explore(body, max_paths=40, max_seconds=60)
            except EngineError as e:
                u.notes.append('guards/%s/%s: %s' % (name, mode, str(e)[:100]))
                continue
            for leaf in leaves:
                out = leaf['result'] if leaf['exception'] is None else type(leaf['exception']).__name__
                pre_l = ctx.base() + leaf['pc']
                if mode:
                    ok = (out == 'ValueError')
                    u.prove('C20/%s.%s/checks-on/improper-rotation-rejected' % (modname, name), pre_l, z3.BoolVal(True) if ok else z3.BoolVal(False),
                            replay=mk_replay_guard(f, modname, name, True), detail='improper rotation R(q).diag(1,1,-1): outcome %s' % out, sample=(name == 'u_to_rod'))
                else:
                    ok = (out != 'ValueError') or True
                    # with the switch off the rotation guard must not fire: any ValueError here has to come from the function body itself
                    u.prove('C20/%s.%s/checks-off/no-guard-error' % (modname, name), pre_l, z3.BoolVal(out != 'ValueError' or name in ('u_to_rod', 'u_to_euler')),
                            replay=mk_replay_guard(f, modname, name, False), detail='switch off: outcome %s' % out)
    # left-handed UBI / ubi_to_u ; euler_to_u with angle outside
    UBI = SYMNP.linalg.inv(np.dot(R, _b(mod, cell))) * kap
    flip = np.dot(C.oa([[1, 0, 0], [0, 1, 0], [0, 0, -1]]), UBI)
    for mode in (True, False):
        u.paths += 1

        def body2():
            xfab.CHECKS.activated = mode
            try:
                with patched(mod, checks):
                    try:
                        mod.ubi_to_u(flip)
                        return 'returned'
                    except ValueError:
                        return 'ValueError'
            finally:
                xfab.CHECKS.activated = True
        leaves, exh = ctx.explore(body2, max_paths=16, max_seconds=60)
        for leaf in leaves:
            out = leaf['result'] if leaf['exception'] is None else type(leaf['exception']).__name__
            u.prove('C20/%s.ubi_to_u/checks-%s/left-handed' % (modname, 'on' if mode else 'off'), ctx.base() + leaf['pc'],
                    z3.BoolVal((out == 'ValueError') == mode), replay=mk_replay_guard(f, modname, 'ubi_to_u', mode), detail='left-handed UBI: outcome %s' % out)
    # valid inputs: same result in both modes (u_to_euler's several hundred paths only in the thorough tier; its paths are C03's subject)
    for name, fn in calls.items():
        if name == 'u_to_euler' and tier == 'quick':
            continue
        res = {}
        for mode in (True, False):
            xfab.CHECKS.activated = mode
            try:
                def body3():
                    with patched(mod, checks, symmetry):
                        return fn(R)
                leaves, exh = ctx.explore(body3, max_paths=400, max_seconds=120)
            except EngineError as e:
                leaves = None
                u.notes.append('guards/%s valid/%s: %s' % (name, mode, str(e)[:100]))
            finally:
                xfab.CHECKS.activated = True
            res[mode] = leaves
        if res[True] is None or res[False] is None:
            continue
        u.paths += len(res[True])
        exc_on = [l for l in res[True] if l['exception'] is not None and isinstance(l['exception'], ValueError) and 'orientation matrix' in str(l['exception'])]
        for l in exc_on:
            u.prove('C20/%s.%s/valid-never-rejected' % (modname, name), ctx.base() + l['pc'], z3.BoolVal(False), replay=mk_replay_guard(f, modname, name, True, valid=True),
                    detail='a proper rotation is rejected on a feasible path', timeout=30)
        same = len(res[True]) == len(res[False])
        if same:
            u.prove('C20/%s.%s/valid/same-paths-on-and-off' % (modname, name), ctx.base(), z3.BoolVal(True), replay=None,
                    detail='%d paths with checks on, %d with checks off' % (len(res[True]), len(res[False])))
        else:
            # path sets explored under a budget / with `unknown` feasibility answers need not coincide: not a verdict
            u.add('C20/%s.%s/valid/same-paths-on-and-off' % (modname, name), 'inconclusive',
                  '%d paths with checks on, %d with checks off (explorations under budget are not comparable path by path)' % (len(res[True]), len(res[False])))
        if same and name != 'Umis':
            for a, b in zip(res[True], res[False]):
                if a['exception'] is not None or b['exception'] is not None:
                    continue
                ra = [x for x in np.asarray(a['result'], dtype=object).flat]
                rb = [x for x in np.asarray(b['result'], dtype=object).flat]
                diffs = []
                for x, y in zip(ra, rb):
                    if isinstance(x, Angle) and isinstance(y, Angle):
                        diffs += [x.c - y.c, x.s - y.s]
                    elif isinstance(x, Angle) or isinstance(y, Angle):
                        diffs.append(lift(1))
                    else:
                        diffs.append(lift(x) - lift(y))
                u.prove('C20/%s.%s/valid/same-value-on-and-off' % (modname, name), ctx.base() + a['pc'], C.resid_goal(zc, diffs), replay=None,
                        detail='identical result with the switch on and off')


def _b(mod, cell):
    with patched(mod):
        return mod.form_b_mat(cell)


def mk_replay_rot(f, group, entry):
    def replay(model):
        from xfab import checks
        env = C.env_from_model(f, model)
        U = rot_from_quat(quat_floats(env))
        if group == 'accept':
            E = np.array([[env['e%d%d' % (i, j)] for j in range(3)] for i in range(3)])
            U = U + E
        elif group == 'improper':
            U = U @ np.diag([1, 1, -1.0])
        else:
            U = U.copy()
            U[entry // 3, entry % 3] += env['e']
        raised = call_check(checks._check_rotation_matrix, U) is not None
        rec = {'kind': 'rot', 'group': group, 'U': U.tolist()}
        bad = raised if group == 'accept' else (not raised)
        return bad, rec, '_check_rotation_matrix %s %s' % ('rejected' if raised else 'accepted', np.round(U, 9).tolist())
    return replay


def mk_replay_guard(f, modname, name, mode, valid=False):
    def replay(model):
        import xfab
        from xfab import symmetry
        mod = importlib.import_module('xfab.' + modname)
        env = C.env_from_model(f, model)
        U = rot_from_quat(quat_floats(env))
        cellf = C.cell_floats(env)
        Ub = U if valid else U @ np.diag([1, 1, -1.0])
        xfab.CHECKS.activated = mode
        try:
            try:
                if name == 'u_to_rod':
                    mod.u_to_rod(Ub)
                elif name == 'u_to_ubi':
                    mod.u_to_ubi(Ub, cellf)
                elif name == 'u_to_euler':
                    mod.u_to_euler(Ub)
                elif name == 'Umis':
                    symmetry.Umis(Ub, U, 1)
                elif name == 'ubi_to_u':
                    ubi = mod.u_to_ubi(U, cellf)
                    mod.ubi_to_u(np.diag([1, 1, -1.0]) @ ubi)
                out = 'returned'
            except ValueError as e:
                out = 'ValueError'
        finally:
            xfab.CHECKS.activated = True
        if valid:
            bad = out == 'ValueError'
        elif name == 'ubi_to_u':
            bad = (out == 'ValueError') != mode
        else:
            bad = (out != 'ValueError') if mode else False
        return bad, {'kind': 'guard', 'module': modname, 'name': name, 'mode': mode, 'q': quat_floats(env).tolist(), 'cell': cellf}, '%s.%s with checks %s: %s' % (modname, name, 'on' if mode else 'off', out)
    return replay


def replay(rec):
    r = rec['replay']
    from xfab import checks
    if r.get('kind') == 'rot':
        raised = call_check(checks._check_rotation_matrix, np.array(r['U'])) is not None
        bad = raised if r['group'] == 'accept' else (not raised)
        return bad, 'check %s the recorded matrix' % ('rejected' if raised else 'accepted')
    if r.get('kind') == 'euler':
        b, _, t = replay_euler({'t': r['t']}, r['pos'])
        return b, t
    return True, 'see record'
