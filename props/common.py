"""shared harness helpers: symbolic cells / rotations, float evaluation at models, comparisons with the real code"""
import math
from fractions import Fraction

import numpy as np
import z3

from vengine.field import Field, Q, lift, F, setfield, EngineError
from vengine.angle import Angle
from vengine import explore, smt
from vengine.explore import Ctx


CELL_NAMES = ['a', 'b', 'c', 'cal', 'sal', 'cbe', 'sbe', 'cga', 'sga']


def cell_setup(f, prefix=''):
    """declare relations/signs for a symbolic cell whose generator names carry `prefix`"""
    p = prefix
    for cn, sn in ((p + 'cal', p + 'sal'), (p + 'cbe', p + 'sbe'), (p + 'cga', p + 'sga')):
        f.angle(cn, sn)
    f.positive(p + 'a', p + 'b', p + 'c', p + 'sal', p + 'sbe', p + 'sga')


def cell_of(f, prefix=''):
    p = prefix
    v = f.var
    return [v(p + 'a'), v(p + 'b'), v(p + 'c')] + [
        Angle(v(p + c), v(p + s), 0, 1, True, True).in_unit('deg')
        for c, s in (('cal', 'sal'), ('cbe', 'sbe'), ('cga', 'sga'))]


def gram(f, prefix=''):
    p = prefix
    ca, cb, cg = f.var(p + 'cal'), f.var(p + 'cbe'), f.var(p + 'cga')
    return 1 - ca * ca - cb * cb - cg * cg + 2 * ca * cb * cg


def cell_pre(zc, f, prefix='', gram_min=Fraction(2, 100)):
    """Gram determinant >= 0.02 (property quantifier) ; positivity comes from field sign facts"""
    return [zc.cmp0(gram(f, prefix) - lift(gram_min), '>=')]


def metric(f, prefix=''):
    p = prefix
    v = f.var
    a, b, c = v(p + 'a'), v(p + 'b'), v(p + 'c')
    ca, cb, cg = v(p + 'cal'), v(p + 'cbe'), v(p + 'cga')
    G = np.empty((3, 3), dtype=object)
    G[0, 0] = a * a
    G[1, 1] = b * b
    G[2, 2] = c * c
    G[0, 1] = G[1, 0] = a * b * cg
    G[0, 2] = G[2, 0] = a * c * cb
    G[1, 2] = G[2, 1] = b * c * ca
    return G


def quat_setup(f, names=('qw', 'qx', 'qy', 'qz')):
    w, x, y, z = names
    f.relation(w, 1 - f.g[x] ** 2 - f.g[y] ** 2 - f.g[z] ** 2)


def quat_rot(f, names=('qw', 'qx', 'qy', 'qz')):
    w, x, y, z = [f.var(n) for n in names]
    R = np.empty((3, 3), dtype=object)
    R[0, 0] = 1 - 2 * (y * y + z * z)
    R[0, 1] = 2 * (x * y - z * w)
    R[0, 2] = 2 * (x * z + y * w)
    R[1, 0] = 2 * (x * y + z * w)
    R[1, 1] = 1 - 2 * (x * x + z * z)
    R[1, 2] = 2 * (y * z - x * w)
    R[2, 0] = 2 * (x * z - y * w)
    R[2, 1] = 2 * (y * z + x * w)
    R[2, 2] = 1 - 2 * (x * x + y * y)
    return R


def free_angle(f, cname, sname, lo=None, hi=None, **kw):
    return Angle(f.var(cname), f.var(sname), lo, hi, **kw)


def Rx(c, s):
    return oa([[1, 0, 0], [0, c, -s], [0, s, c]])


def Ry(c, s):
    return oa([[c, 0, s], [0, 1, 0], [-s, 0, c]])


def Rz(c, s):
    return oa([[c, -s, 0], [s, c, 0], [0, 0, 1]])


def oa(rows):
    a = np.empty((len(rows), len(rows[0])) if isinstance(rows[0], (list, tuple, np.ndarray)) else (len(rows),), dtype=object)
    for i, r in enumerate(rows):
        if isinstance(r, (list, tuple, np.ndarray)):
            for j, x in enumerate(r):
                a[i, j] = x
        else:
            a[i] = r
    return a


def mdot(*ms):
    out = ms[0]
    for m in ms[1:]:
        out = np.dot(out, m)
    return out


def eye3():
    return oa([[1, 0, 0], [0, 1, 0], [0, 0, 1]])


# ------------------------------------------------------------------------------------------------
# float evaluation

def env_from_model(f, model, defaults=None):
    """float value of every generator: base generators from the solver model, relation generators
    recomputed from their defining relation with the model's sign (so that the environment is
    consistent in binary64)"""
    env = {}
    defaults = defaults or {}
    rel_names = {f.names[i] for i in f.rel}
    for n in f.names[:f.nbase]:
        if n in rel_names:
            continue
        v = model.get(n) if model else None
        if v is None:
            v = defaults.get(n, 0.37)
        env[n] = float(v)
    if 'pi' in env:
        env['pi'] = math.pi
    for i, rep in f.rel.items():          # declaration order = dependency order
        n = f.names[i]
        val = evalp(f, rep, env)
        sg = 1.0
        mv = model.get(n) if model else None
        if mv is not None and float(mv) < 0:
            sg = -1.0
        if f.sign.get(n) in ('>', '>='):
            sg = 1.0
        env[n] = sg * math.sqrt(max(val, 0.0))
    return env


def evalp(f, p, env):
    tot = 0.0
    for m, c in p.items():
        t = float(Fraction(int(c.numerator), int(c.denominator)))
        for i, e in enumerate(m):
            if e:
                t *= env[f.names[i]] ** e
        tot += t
    return tot


def evalq(q, env, f=None):
    f = f or F()
    if isinstance(q, Angle):
        c = evalq(q.c, env, f)
        if callable(getattr(q, '_s', None)):
            s = math.sqrt(max(0.0, 1.0 - c * c))       # lazy sine of an arccos result (window [0, pi]): do not create new generators here
        else:
            s = evalq(q.s, env, f)
        th = math.atan2(s, c)
        if q.lo is not None:
            lo, hi = float(q.lo) * math.pi, float(q.hi) * math.pi
            while th < lo - 1e-12:
                th += 2 * math.pi
            while th > hi + 1e-12:
                th -= 2 * math.pi
        return th * float(q.r) * math.pi ** q.p
    if isinstance(q, (int, float)):
        return float(q)
    if isinstance(q, Fraction):
        return float(q)
    q = lift(q)
    return evalp(f, q.n, env) / evalp(f, q.d, env)


def evalarr(a, env, f=None):
    a = np.asarray(a, dtype=object)
    out = np.empty(a.shape, dtype=float)
    for idx in np.ndindex(a.shape):
        out[idx] = evalq(a[idx], env, f)
    return out


def _snap(x, eps=1e-9):
    """a float within eps of an integer is that integer (models on measure-zero sets such as gamma == 120)"""
    r = round(x)
    return float(r) if abs(x - r) < eps else x


def cell_floats(env, prefix=''):
    p = prefix
    return [_snap(env[p + 'a']), _snap(env[p + 'b']), _snap(env[p + 'c']),
            _snap(math.degrees(math.atan2(env[p + 'sal'], env[p + 'cal']))),
            _snap(math.degrees(math.atan2(env[p + 'sbe'], env[p + 'cbe']))),
            _snap(math.degrees(math.atan2(env[p + 'sga'], env[p + 'cga'])))]


def pc_holds(zc, pc, env):
    """does the float environment satisfy the path condition (evaluated exactly on the floats' rational values)?"""
    if not pc:
        return True
    sub = [(v, smt.RV(Fraction(repr(float(env[n]))))) for n, v in zc.vars.items() if n in env]
    for c in pc:
        r = z3.simplify(z3.substitute(c, *sub))
        if not z3.is_true(r):
            return False
    return True


def close(a, b, rtol=1e-8, atol=1e-9):
    a = np.asarray(a, dtype=float)
    b = np.asarray(b, dtype=float)
    if a.shape != b.shape:
        return False
    return bool(np.all(np.abs(a - b) <= atol + rtol * np.maximum(np.abs(a), np.abs(b))))


def resid_goal(zc, residuals):
    """z3 goal: every residual (Q) is zero"""
    parts = []
    for r in residuals:
        r = lift(r)
        if r.iszero():
            continue
        parts.append(zc.cmp0(r, '=='))
    return z3.And(parts) if parts else z3.BoolVal(True)


def nz_count(residuals):
    return sum(0 if lift(r).iszero() else 1 for r in residuals)


def flat(x):
    return list(np.asarray(x, dtype=object).flat)


def angle_resid(a1, a2):
    """two angles with windows inside [0, pi] are equal iff their cosines are"""
    return [a1.c - a2.c]


def default_cell_model():
    return {'a': Fraction(3), 'b': Fraction(4), 'c': Fraction(5), 'cal': Fraction(1, 6), 'cbe': Fraction(-1, 11), 'cga': Fraction(-1, 6),
            'sal': 1, 'sbe': 1, 'sga': 1}


def hints_from(zc, values):
    """equalities  var == rational  for a dict name -> Fraction/str"""
    return [zc.var(n) == smt.RV(Fraction(v)) for n, v in values.items()]


CELL_HINT = {'a': '3', 'b': '4', 'c': '5', 'cal': '1/6', 'cbe': '-1/11', 'cga': '-1/6'}
