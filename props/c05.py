"""C05 (part A) — reflection conditions used by genhkl_* agree with the group's own operators, for every integer hkl.

The real sysabs/sysabs_unique (both modules) run on z3 integer proxies h,k,l with the setting's live syscond vector,
crystal_system and cell_choice; every path of the function is explored.  Independent oracle from the live operator
table: extinct(h) <=> some (R,t) has hR = h and h.t not an integer."""
import importlib

import numpy as np
import z3

from vengine.field import Field
from vengine.explore import Ctx
from vengine import smt, zprox
from .c04 import RHOMB, snap24, settings

META = {
    'explanation': 'Part A (all 237 settings, unbounded integer hkl): the real sysabs (both modules) is executed on solver integers h,k,l with the '
                   'live syscond/crystal_system/cell_choice; its 15-40 feasible paths per setting are explored; on every path '
                   '(sysabs != 0) <=> extinct(h) is decided in QF_LIA (mod by constants), where extinct is built from the live rot/trans table '
                   '(hR = h and 24.h.t mod 24 != 0).  R-centred groups: extinct_hex(T.h_r) <=> extinct_rhomb(h_r) for the obverse transformation T '
                   'and every hexagonal-setting reflection not of the form T.h_r is extinct.  genhkl_all/genhkl_unique consult exactly this function '
                   'for the representative of each Laue family; the traversal geometry (which lattice points are visited) is C06\'s subject.',
    'functions': ['xfab.tools.sysabs', 'xfab.tools.sysabs_unique', 'xfab.laue.sysabs', 'xfab.laue.sysabs_unique', 'xfab.sg.sg.__init__'],
    'bounds': {'settings': 'all 237', 'hkl': 'all integers with |h|,|k|,|l| <= 24 inside the region the traversal of the Laue class can visit (conditions are periodic with period dividing 12)'},
    'outside_claim': ['traversal geometry of genhkl_base (see C06)', 'translations idealised to 24ths (validated by C04 within 2e-6)'],
    'stubs': ['integer proxies for h,k,l (z3 Int): abs as if-then-else term, % as mod'],
    'assumptions': ['a reflection is extinct iff some operation (R,t) has hR=h and h.t non-integer (property statement)'],
}


def units(tier):
    ss = settings()
    us = []
    n = 6
    for i in range(0, len(ss), n):
        chunk = ss[i:i + n]
        us.append({'name': 'sg:' + ','.join('%d%s' % (no, 'r' if c[0] == 'r' else '') for no, c in chunk), 'settings': chunk})
    us.append({'name': 'R-centred hex<->rhomb', 'settings': None})
    return us


def table_rows(s):
    rows = []
    for R, t in zip(np.asarray(s.rot), np.asarray(s.trans)):
        rows.append(([[int(round(x)) for x in r] for r in R], [snap24(x)[0] for x in t]))
    return rows


def extinct_formula(rows, h):
    """h: list of 3 z3 Int terms"""
    alts = []
    seen = set()
    for R, t in rows:
        key = (tuple(map(tuple, R)), tuple(x % 24 for x in t))
        if key in seen:
            continue
        seen.add(key)
        if all(x % 24 == 0 for x in t):
            continue
        hR = [sum(h[i] * R[i][j] for i in range(3)) for j in range(3)]
        ht = sum(h[i] * t[i] for i in range(3))
        alts.append(z3.And(hR[0] == h[0], hR[1] == h[1], hR[2] == h[2], ht % 24 != 0))
    return z3.Or(alts) if alts else z3.BoolVal(False)


def extinct_concrete(rows, h):
    for R, t in rows:
        hR = [sum(h[i] * R[i][j] for i in range(3)) for j in range(3)]
        if hR == list(h) and sum(h[i] * t[i] for i in range(3)) % 24 != 0:
            return True
    return False


BOX = 24      # all moduli divide 12; every residue class and every special-position pattern occurs within |h| <= 24
_SEG_CACHE = {}


def segment_tables(modname):
    """the traversal segment tables of genhkl_base, read from the CURRENT source of the module by walking its AST:
    {(Laue_class, rhombohedral?): [[origin, d1, d2, d3], ...]}"""
    if modname in _SEG_CACHE:
        return _SEG_CACHE[modname]
    import ast
    import inspect
    mod = importlib.import_module('xfab.' + modname)
    tree = ast.parse(inspect.getsource(mod.genhkl_base).lstrip())
    out = {}
    for node in ast.walk(tree):
        if not isinstance(node, ast.If):
            continue
        test = node.test
        laue, rh = None, None
        comps = [test] if isinstance(test, ast.Compare) else (test.values if isinstance(test, ast.BoolOp) and isinstance(test.op, ast.And) else [])
        for c in comps:
            if isinstance(c, ast.Compare) and isinstance(c.left, ast.Name) and len(c.comparators) == 1 and isinstance(c.comparators[0], ast.Constant):
                if c.left.id == 'Laue_class' and isinstance(c.ops[0], ast.Eq):
                    laue = c.comparators[0].value
                if c.left.id == 'cell_choice' and c.comparators[0].value == 'rhombohedral':
                    rh = isinstance(c.ops[0], ast.Eq)
        if laue is None:
            continue
        for st in node.body:
            if isinstance(st, ast.Assign) and len(st.targets) == 1 and isinstance(st.targets[0], ast.Name) and st.targets[0].id == 'segm':
                call = st.value
                if isinstance(call, ast.Call) and call.args:
                    try:
                        val = ast.literal_eval(call.args[0])
                    except Exception:
                        continue
                    out[(laue, rh)] = val
    _SEG_CACHE[modname] = out
    return out


def region_formula(modname, laue, cell_choice, h):
    """h is visited by the traversal of this Laue class for some shell: h = O + i.d1 + j.d2 + m.d3 with i,j,m >= 0 (some segment)"""
    tabs = segment_tables(modname)
    rh = (cell_choice == 'rhombohedral')
    segm = None
    for key in ((laue, rh), (laue, None)):
        if key in tabs:
            segm = tabs[key]
            break
    if segm is None:
        return None, None
    alts = []
    for seg in segm:
        O, d1, d2, d3 = [list(map(int, x)) for x in seg]
        D = np.array([d1, d2, d3], dtype=object).T          # columns
        det = int(round(float(np.linalg.det(np.array(D, dtype=float)))))
        if det == 0:
            return None, None
        # adjugate: (i,j,m) = adj.(h - O)/det, quantifier-free
        Df = np.array(D, dtype=float)
        adj = np.round(np.linalg.inv(Df) * det).astype(int)
        rel = [h[a] - O[a] for a in range(3)]
        cs = []
        for r in range(3):
            e = sum(int(adj[r, c]) * rel[c] for c in range(3))
            e = e if det > 0 else -e
            cs.append(e >= 0)
            if abs(det) != 1:
                cs.append(e % abs(det) == 0)
        alts.append(z3.And(cs))
    return z3.Or(alts), segm


def run_unit(u, desc, tier, seed):
    from xfab import sg as sgmod
    smt.INPROC = True
    if desc['settings'] is None:
        return run_rcentred(u, sgmod)
    f = Field(['dummy'], naux=0)
    ctx = Ctx(f, feas_timeout=5.0)
    H = [zprox.Int('h'), zprox.Int('k'), zprox.Int('l')]
    hz = [x.t for x in H]
    for (no, cc) in desc['settings']:
        tag = 'Sg%d%s' % (no, '-rhomb' if cc == 'rhombohedral' else '')
        s = sgmod.sg(sgno=no, cell_choice=cc)
        rows = table_rows(s)
        ext = extinct_formula(rows, hz)
        syscond = s.syscond
        for modname in ('tools', 'laue'):
            mod = importlib.import_module('xfab.' + modname)
            region, segm = region_formula(modname, s.Laue, s.cell_choice, hz)
            if region is None:
                u.add('C05/%s/%s.segments' % (tag, modname), 'violated', 'genhkl_base has no segment table for Laue class %r (%s)' % (s.Laue, s.cell_choice),
                      replay={'no': no, 'cc': cc, 'module': modname, 'hkl': None})
                continue
            notzero = z3.And(z3.Or(hz[0] != 0, hz[1] != 0, hz[2] != 0), *[z3.And(x <= BOX, x >= -BOX) for x in hz])

            def body():
                return mod.sysabs(H, syscond, s.crystal_system, s.cell_choice)
            leaves, exh = ctx.explore(body, max_paths=4000, max_seconds=120)
            u.decisions += ctx.decisions
            if not exh:
                u.exhaustive = False
            bad_keys = set()
            for leaf in leaves:
                u.paths += 1
                if leaf['exception'] is not None:
                    u.add('C05/%s/%s.sysabs/exception' % (tag, modname), 'violated', 'sysabs raised %r' % (leaf['exception'],), replay={'no': no, 'cc': cc, 'module': modname, 'hkl': None})
                    continue
                r = leaf['result']
                if isinstance(r, zprox.ZNum):
                    nonzero = r.t != 0
                else:
                    nonzero = z3.BoolVal(int(r) != 0)
                goal = nonzero == ext

                def rp(model, no=no, cc=cc, modname=modname, rows=rows):
                    hkl = [int(model.get(n, 0)) for n in ('h', 'k', 'l')]
                    ok, text = numeric(no, cc, modname, hkl)
                    return ok, {'no': no, 'cc': cc, 'module': modname, 'hkl': hkl}, text
                if modname == 'tools' and u.paths % 7 == 0:
                    # translator validation: a solver witness of this path (a concrete hkl) must make the real sysabs, run on plain
                    # integers, return the value this leaf returned
                    stw, mw, _ = smt.solve(leaf['pc'] + [region, notzero], timeout_s=5, cvc5_timeout_s=0)
                    if stw == 'sat' and mw:
                        hw = [int(mw.get(nm, 0)) for nm in ('h', 'k', 'l')]
                        realv = mod.sysabs(hw, syscond, s.crystal_system, s.cell_choice)
                        if not isinstance(r, zprox.ZNum) and int(realv) == int(r):
                            u.validated += 1
                        else:
                            u.add('C05/%s/%s.sysabs/translator' % (tag, modname), 'error', 'real sysabs(%s)=%s but the symbolic path returned %s' % (hw, realv, r))
                u.prove('C05/%s/%s.sysabs<=>operators' % (tag, modname), leaf['pc'] + [region, notzero], goal, replay=rp,
                        detail='%s %s: (sysabs != 0) <=> extinct by the %d tabulated operators, on a path returning %s' % (tag, modname, len(rows), r if not isinstance(r, zprox.ZNum) else 'symbolic'),
                        timeout=60, cvc5_timeout=0, sample=(no in (14, 167) and modname == 'tools' and u.paths < 3))


CELLS = {'triclinic': [5.1, 6.2, 7.3, 83., 97., 104.], 'monoclinic': [5.1, 6.2, 7.3, 90., 104., 90.], 'orthorhombic': [5.1, 6.2, 7.3, 90., 90., 90.],
         'tetragonal': [5.1, 5.1, 7.3, 90., 90., 90.], 'trigonal': [5.1, 5.1, 7.3, 90., 90., 120.], 'hexagonal': [5.1, 5.1, 7.3, 90., 90., 120.],
         'cubic': [5.1, 5.1, 5.1, 90., 90., 90.], 'rhombohedral': [5.1, 5.1, 5.1, 77., 77., 77.]}


def numeric(no, cc, modname, hkl):
    """confirm through the public API: genhkl_all on a conforming cell and a shell that contains hkl must list exactly the
    non-extinct reflections; the disagreement has to involve the Laue family of hkl"""
    from xfab import sg as sgmod
    mod = importlib.import_module('xfab.' + modname)
    s = sgmod.sg(sgno=no, cell_choice=cc)
    rows = table_rows(s)
    got = mod.sysabs(hkl, s.syscond, s.crystal_system, s.cell_choice)
    want = extinct_concrete(rows, hkl)
    if (got != 0) == want:
        return False, 'sysabs agrees with the operators for %s' % (hkl,)
    cell = CELLS['rhombohedral' if s.cell_choice == 'rhombohedral' else s.crystal_system]
    stl = float(mod.sintl(cell, hkl))
    lo, hi = stl * 0.97, stl * 1.03
    np.random.seed(1)
    out = mod.genhkl_all(cell, lo, hi, sgno=no, cell_choice=cc)
    have = {tuple(int(round(x)) for x in r[:3]) for r in np.asarray(out)}
    fam = set()
    for R, t in rows:
        v = tuple(sum(hkl[i] * R[i][j] for i in range(3)) for j in range(3))
        fam.add(v)
        fam.add(tuple(-x for x in v))
    ref = set()
    for v in fam:
        sv = float(mod.sintl(cell, list(v)))
        if lo < sv <= hi and not extinct_concrete(rows, list(v)):
            ref.add(v)
    have = have & fam
    diff = (have ^ ref) & fam
    text = 'Sg%d %s hkl=%s: %s.sysabs=%s but operators say %s; genhkl_all(cell=%s, %.4f..%.4f) %s' % (
        no, cc, hkl, modname, got, 'extinct' if want else 'allowed', cell, lo, hi,
        ('lists %s wrongly / misses %s' % (sorted(have - ref & fam)[:3], sorted((ref - have) & fam)[:3])) if diff else 'is nevertheless correct for this family')
    return bool(diff), text


def run_rcentred(u, sgmod):
    """hexagonal vs rhombohedral setting of the seven R groups (oracle level, live tables)"""
    hr = [z3.Int('hr'), z3.Int('kr'), z3.Int('lr')]
    hh = [hr[0] - hr[1], hr[1] - hr[2], hr[0] + hr[1] + hr[2]]        # obverse: h_hex = T.h_rhomb
    g = [z3.Int('h'), z3.Int('k'), z3.Int('l')]
    for no in RHOMB:
        u.paths += 1
        sh = sgmod.sg(sgno=no, cell_choice='standard')
        sr = sgmod.sg(sgno=no, cell_choice='rhombohedral')
        eh = extinct_formula(table_rows(sh), hh)
        er = extinct_formula(table_rows(sr), hr)

        def rp(model, no=no):
            v = [int(model.get(n, 0)) for n in ('hr', 'kr', 'lr')]
            return True, {'no': no, 'hr': v, 'kind': 'rcentred'}, 'Sg%d: rhombohedral reflection %s and its hexagonal image disagree' % (no, v)
        u.prove('C05/Sg%d/hex(T.h)<=>rhomb(h)' % no, [], eh == er, replay=rp, detail='extinct_hex(T.h_r) <=> extinct_rhomb(h_r) for all integer h_r', timeout=60, cvc5_timeout=0, sample=(no == 167))
        eg = extinct_formula(table_rows(sh), g)
        notimg = (-g[0] + g[1] + g[2]) % 3 != 0

        def rp2(model, no=no):
            v = [int(model.get(n, 0)) for n in ('h', 'k', 'l')]
            return True, {'no': no, 'h': v, 'kind': 'rcentred2'}, 'Sg%d hexagonal: %s is not an obverse image but not extinct' % (no, v)
        u.prove('C05/Sg%d/hex-reflections-are-obverse-images' % no, [notimg], eg, replay=rp2, detail='-h+k+l != 3n  =>  extinct in the hexagonal setting', timeout=60, cvc5_timeout=0)


def replay(rec):
    r = rec['replay']
    if r.get('kind'):
        return True, 'oracle-level disagreement recorded: %s' % r
    if r['hkl'] is None:
        return True, 'sysabs raised'
    ok, text = numeric(r['no'], r['cc'], r['module'], r['hkl'])
    return ok, text
