"""C09 — returned (omega, eta) satisfy the diffraction condition; no solution is missed (both modules)."""
import importlib
import math
from fractions import Fraction

import numpy as np
import z3

from vengine.field import Field, Q, lift, EngineError
from vengine.angle import Angle, cos_const
from vengine.explore import Ctx
from vengine import smt, core
from vengine.symnp import patched, SYMNP
from . import common as C

FUNCS = ['find_omega', 'find_omega_general', 'find_omega_quart', 'find_omega_wedge', 'form_omega_mat', 'form_omega_mat_general', 'quart_to_omega',
         'tth', 'tth2', 'sintl', 'form_b_mat']
META = {
    'explanation': 'History: every call under test is preceded in the same process by legal calls of the tilted solvers with other tilts (chi = wedge = 0), and find_omega_general / find_omega_quart are analysed a second time with wedge = 0 exactly after such calls (units @wedge0). '
                   'The four omega solvers are executed symbolically: theta is a primitive angle (cos,sin) with 2theta its double, chi and wedge are '
                   '(cos,sin) pairs with |angle|<=0.5 rad, g is a real vector with |g|^2 = sin^2(theta) encoded as a defining relation (laue: times an '
                   'arbitrary positive scale, exercising its renormalisation).  Paths: no solution (d<0) / two solutions, plus the sign forks of abs. '
                   'On the two-solution paths, for i=0,1: (Omega_i g)_x = -sin^2(theta), (Omega_i g)_y = -sin(2theta) sin(eta_i)/2, (Omega_i g)_z = '
                   'sin(2theta) cos(eta_i)/2 with Omega_i the module\'s own matrix for that solver; omega in (-pi,pi] from the arctan2/arccos window model. '
                   'Completeness: the condition is affine in (cos w, sin w) with a non-constant linear part, and the two returned (cos,sin) pairs are distinct '
                   'when the discriminant is positive, hence no third solution; on the no-solution path the discriminant is negative, hence no solution '
                   '(an affine function a.cos w + b.sin w = c has a solution iff a^2+b^2 >= c^2).',
    'functions': ['xfab.%s.%s' % (m, f) for m in ('tools', 'laue') for f in FUNCS],
    'bounds': {'theta': '(0.25, 75) deg', 'chi,wedge': '[-0.5,0.5] rad', 'g': 'all directions', 'tangency': 'count claim only where |discriminant| >= 1e-6.(a^2+b^2) (property: cases within 1e-6 relative of tangency excluded)'},
    'outside_claim': ['binary64 rounding', 'tangent reflections (discriminant within the margin)'],
    'stubs': ['inside find_omega_quart the callee quart_to_omega is replaced by its summary P.Rz(w).P^T, proved equal to the real function for all w at the start of the unit', 'arctan2/arccos/arcsin -> Angle windows', 'sqrt as nonnegative root', 'linalg.norm closed form'],
    'assumptions': ['a non-constant affine function of (cos w, sin w) vanishes at no more than two points of the unit circle, and at none iff a^2+b^2 < c^2',
                    'exact real arithmetic; pi enclosure'],
}
SOLVERS = ['general', 'quart', 'wedge', 'plain']


def units(tier):
    us = []
    for m in ('tools', 'laue'):
        for s in SOLVERS:
            us.append({'name': '%s/%s' % (m, s), 'module': m, 'group': s})
        us.append({'name': '%s/tth' % m, 'module': m, 'group': 'tth'})
        # history units: the tilted solvers with wedge = 0 exactly (the common set-up) after calls with other tilts (see prime());
        # with the wedge concrete the expressions of a path that reuses stale state stay small enough to be decided
        for s in ('general', 'quart'):
            us.append({'name': '%s/%s@wedge0' % (m, s), 'module': m, 'group': s, 'wedge0': True})
    return us


def setup(modname, group):
    names = ['pi', 'ct', 'st', 'g0', 'g1', 'g2']
    if group in ('general', 'quart'):
        names += ['cx', 'sx', 'cy', 'sy']
    elif group == 'wedge':
        names += ['cy', 'sy']
    if modname == 'laue':
        names += ['kap']
    f = Field(names, naux=8)
    f.positive('pi', 'ct', 'st')
    f.angle('ct', 'st')
    # |g|^2 = sin^2(theta):  g2^2 = st^2 - g0^2 - g1^2 ; st^2 -> 1 - ct^2 by the angle relation
    f.relation('g2', 1 - f.g['ct'] ** 2 - f.g['g0'] ** 2 - f.g['g1'] ** 2)
    for c, s in (('cx', 'sx'), ('cy', 'sy')):
        if c in f.idx:
            f.angle(c, s)
            f.positive(c)
    if modname == 'laue':
        f.positive('kap')
    ctx = Ctx(f)
    zc = ctx.zc
    v = f.var
    pre = smt.pi_enclosure(zc)
    # theta in (0.25, 75) deg
    pre += [zc.cmp0(v('ct') - lift(cos_const(Fraction(75) * Fraction(314159265358979, 10 ** 14) / 180)), '>='),
            zc.cmp0(v('ct') - lift(cos_const(Fraction(1, 4) * Fraction(314159265358979, 10 ** 14) / 180)), '<=')]
    c05 = lift(cos_const(Fraction(1, 2)))
    for c in ('cx', 'cy'):
        if c in f.idx:
            pre.append(zc.cmp0(v(c) - c05, '>='))
    ctx.pre = pre
    return f, ctx


HINT = {'ct': '12/13', 'g0': '-1/10', 'g1': '1/5', 'cx': '99/100', 'cy': '24/25', 'kap': '3'}


def own_matrix(mod, group, omega, tilts):
    """the rotation matrix the module itself builds for that solver (as listed in the property)"""
    if group == 'general':
        return mod.form_omega_mat_general(omega, tilts[0], tilts[1])
    if group == 'quart':
        return quart_summary(omega * 180. / SYMNP.pi, tilts[0], tilts[1])
    if group == 'wedge':
        w = tilts[0]
        return np.dot(C.Ry(w.c, -w.s), mod.form_omega_mat(omega))
    return mod.form_omega_mat(omega)


def quart_summary(w, w_x, w_y):
    """function summary of quart_to_omega: P.Rz(w).P^T with P = Rx(w_x).Ry(w_y)  (w in degrees).  The summary is used in place of the real
    callee inside find_omega_quart (its half-angle of a computed omega would introduce nested radicals); the lemma
    'quart_to_omega == P.Rz.P^T for every w and every tilt' is re-proved on the real code at the start of the unit."""
    wr = w * SYMNP.pi / 180.
    c, s = wr.cs()
    Pm = C.mdot(C.Rx(w_x.c, w_x.s), C.Ry(w_y.c, w_y.s))
    return C.mdot(Pm, C.Rz(c, s), Pm.T)


def prove_quart_lemma(u, mod, modname):
    f = Field(['pi', 'ch', 'sh', 'cx', 'sx', 'cy', 'sy'], naux=1)
    f.positive('pi')
    for c, s in (('ch', 'sh'), ('cx', 'sx'), ('cy', 'sy')):
        f.angle(c, s)
    ctx = Ctx(f)
    v = f.var
    with patched(mod):
        w = Angle.double(Angle(v('ch'), v('sh'))).in_unit('deg')
        M = mod.quart_to_omega(w, Angle(v('cx'), v('sx')), Angle(v('cy'), v('sy')))
    S = quart_summary(Angle.double(Angle(v('ch'), v('sh'))).in_unit('deg'), Angle(v('cx'), v('sx')), Angle(v('cy'), v('sy')))
    st = u.prove('C09/%s.quart_to_omega/summary-lemma' % modname, ctx.base() + smt.pi_enclosure(ctx.zc), C.resid_goal(ctx.zc, C.flat(M - S)), replay=None,
                 detail='real quart_to_omega(w,wx,wy) == P.Rz(w).P^T for all w (double of a primitive half angle) and all tilts')
    return st == 'discharged'


def run_unit(u, desc, tier, seed):
    modname, group = desc['module'], desc['group']
    mod = importlib.import_module('xfab.' + modname)
    import xfab
    xfab.CHECKS.activated = True
    if group == 'tth':
        return run_tth(u, desc, mod, modname, tier)
    extra = None
    if group == 'quart':
        if not prove_quart_lemma(u, mod, modname):
            u.notes.append('quart_to_omega summary lemma failed: find_omega_quart not analysed with the summary')
            return
        extra = {'quart_to_omega': quart_summary}
    f, ctx = setup(modname, group)
    zc = ctx.zc
    v = f.var
    wedge0 = bool(desc.get('wedge0'))
    if wedge0:
        ctx.pre = ctx.pre + [zc.cmp0(v('cy') - 1, '=='), zc.cmp0(v('sy'), '==')]
    g = C.oa([v('g0'), v('g1'), v('g2')])
    gin = g * v('kap') if modname == 'laue' else g
    st, ct = v('st'), v('ct')
    hint = {k: x for k, x in HINT.items() if k in f.idx}

    def mk_inputs():
        theta = Angle(ct, st, 0, Fraction(1, 2), True, True)
        tw = Angle.double(theta)
        tilts = []
        if group in ('general', 'quart'):
            tilts = [Angle(v('cx'), v('sx'), Fraction(-1, 2), Fraction(1, 2), True, True),
                     Angle(lift(1) if wedge0 else v('cy'), lift(0) if wedge0 else v('sy'), Fraction(-1, 2), Fraction(1, 2), True, True)]
        elif group == 'wedge':
            tilts = [Angle(v('cy'), v('sy'), Fraction(-1, 2), Fraction(1, 2), True, True)]
        return tw, tilts

    def body():
        tw, tilts = mk_inputs()
        prime(mod)
        with patched(mod, extra=extra):
            if group == 'general':
                om, eta = mod.find_omega_general(gin, tw, tilts[0], tilts[1])
            elif group == 'quart':
                om, eta = mod.find_omega_quart(gin, tw, tilts[0], tilts[1])
            elif group == 'wedge':
                om, eta = mod.find_omega_wedge(gin, tw, tilts[0])
            else:
                om, eta = mod.find_omega(gin, tw), None
            om = list(om)
            mats = [own_matrix(mod, group, o, tilts) for o in om]
            # the condition as a function of an arbitrary rotation angle (for the completeness argument)
            return {'om': om, 'eta': None if eta is None else list(eta), 'mats': mats}
    leaves, exh = ctx.explore(body, max_paths=64, max_seconds=200)
    u.exhaustive = exh
    u.decisions = ctx.decisions
    qt = 30 if tier == 'quick' else 240
    s2t = 2 * st * ct
    n2 = 0
    for li, leaf in enumerate(leaves):
        u.paths += 1
        tag = '/p' + ''.join('T' if d else 'F' for d in leaf['trace'])
        pre = ctx.base() + leaf['pc']
        rp = mk_replay(f, modname, group)

        def P(name, goal, **kw):
            kw.setdefault('timeout', qt)
            return u.prove('C09/%s.%s/%s' % (modname, FN[group], name), pre, goal, replay=rp, detail=name + ' on path ' + tag, sample=(li < 2), **kw)
        if leaf['exception'] is not None:
            P('no-exception(%s)' % type(leaf['exception']).__name__, z3.BoolVal(False))
            continue
        o = leaf['result']
        model = u.reach(desc['name'] + tag, pre, hints=C.hints_from(zc, hint), soft=True, timeout=15)
        if model is core.INFEASIBLE:
            u.paths -= 1
            continue
        if model is not None:
            env = C.env_from_model(f, model)
            if validate(mod, modname, group, o, env):
                u.validated += 1
            else:
                u.notes.append('witness mismatch on %s %s' % (desc['name'], tag))
        nsol = len(o['om'])
        disc, lin2, cond = discriminant(f, group)
        if nsol == 0:
            # completeness (a): no solution returned => none exists  <=>  a^2+b^2 < c^2 on this path
            goal_none = zc.cmp0(disc - lift(Fraction(1, 10 ** 6)) * lin2, '<=')
            st_none = P('complete/none-returned=>none-exists(or tangent)', goal_none)
            if st_none == 'discharged':
                continue          # decided for every theta: the low-angle ladder below is only needed when this is not discharged
            # concretisation ladder: the same obligation with theta pinned to exact rational points of the unit circle at low Bragg angle,
            # where absolute tolerances in the code bite (reported as decided on this grid only)
            for tt in (Fraction(1, 400), Fraction(1, 120), Fraction(1, 30)):
                cth, sth = (1 - tt * tt) / (1 + tt * tt), 2 * tt / (1 + tt * tt)
                pin_th = [zc.var('ct') == smt.RV(cth), zc.var('st') == smt.RV(sth)]
                u.prove('C09/%s.%s/complete/none-returned=>none-exists[theta=2atan(%s)]' % (modname, FN[group], tt), pre + pin_th, goal_none, replay=rp,
                        detail='ladder point theta = %.3f deg on path %s' % (float(2 * __import__('math').degrees(__import__('math').atan(float(tt)))), tag), timeout=8, cvc5_timeout=8)
            continue
        n2 += 1
        if nsol != 2:
            P('two-solutions', z3.BoolVal(False))
            continue
        for i in range(2):
            om = o['om'][i]
            M = o['mats'][i]
            gt = np.dot(M, g)
            okw = isinstance(om, Angle) and om.is_rad() and om.lo is not None and om.lo >= -1 and om.hi <= 1
            goal_w = z3.BoolVal(bool(okw))
            if okw and om.lo == -1 and not om.lo_open:
                goal_w = zc.cmp0(om.c + 1, '!=')       # omega == -pi excluded
            P('omega%d in (-pi,pi]' % i, goal_w)
            P('omega%d/x-component=-sin^2(theta)' % i, C.resid_goal(zc, [gt[0] + st * st]))
            if o['eta'] is not None:
                eta = o['eta'][i]
                ec, es = eta.cs()
                P('eta%d/y-component' % i, C.resid_goal(zc, [gt[1] + s2t * es / 2]))
                P('eta%d/z-component' % i, C.resid_goal(zc, [gt[2] - s2t * ec / 2]))
        # completeness (b): two returned => no third.  distinct (cos,sin) pairs when the discriminant exceeds the tangency margin
        c0, s0 = o['om'][0].cs()
        c1, s1 = o['om'][1].cs()
        margin = lift(Fraction(1, 10 ** 6))
        pre_m = pre + [zc.cmp0(disc - margin * lin2, '>='), zc.cmp0(lin2, '>')]
        dd = (c0 - c1) * (c0 - c1) + (s0 - s1) * (s0 - s1)
        cert = dd * lin2 - 4 * disc
        if cert.iszero():
            # certificate: |(cos,sin)_0 - (cos,sin)_1|^2 . (a^2+b^2) = 4.discriminant (identity on the real outputs), then an abstract inequality
            u.prove('C09/%s.%s/complete/two-returned-are-distinct/certificate' % (modname, FN[group]), pre, C.resid_goal(zc, [cert]), replay=rp,
                    detail='distance^2 of the two returned (cos,sin) pairs times (a^2+b^2) equals 4.discriminant on path ' + tag)
            Dz, Lz, Sz = z3.Reals('Dd Ll Ss')
            u.prove('C09/%s.%s/complete/two-returned-are-distinct/abstract' % (modname, FN[group]), [Dz * Lz == 4 * Sz, Sz >= z3.RealVal('1/1000000') * Lz, Lz > 0],
                    Dz > 0, replay=None, detail='D.L = 4S, S >= 1e-6 L, L > 0  =>  D > 0')
        else:
            u.prove('C09/%s.%s/complete/two-returned-are-distinct' % (modname, FN[group]), pre_m, zc.cmp0(dd, '>'), replay=rp,
                    detail='distinct solutions beyond the tangency margin on path ' + tag, timeout=qt)
    # structural facts of the completeness argument (once per unit): the condition is affine in (cos w, sin w)
    aff = affine_check(f, mod, group, g)
    u.prove('C09/%s.%s/complete/condition-affine-in-(cos w,sin w)' % (modname, FN[group]), ctx.base(), z3.BoolVal(bool(aff[0])), replay=None, detail=aff[1])
    if u.paths == 0:
        u.add('C09/%s.%s/reach' % (modname, FN[group]), 'error', 'every explored path was infeasible (vacuous harness)')
    if n2 == 0:
        u.notes.append('no two-solution path explored in %s' % desc['name'])


FN = {'general': 'find_omega_general', 'quart': 'find_omega_quart', 'wedge': 'find_omega_wedge', 'plain': 'find_omega'}


def _free_omega_field(f):
    pass


def condition_coeffs(f, mod, group, g):
    """(A, B, C0) with (Omega(w) g)_x + sin^2(theta) = A cos w + B sin w + C0, obtained by running the module's own matrix
    builder at w = 0, pi/2, pi"""
    v = f.var
    st = v('st')
    tilts = []
    if group in ('general', 'quart'):
        tilts = [Angle(v('cx'), v('sx'), Fraction(-1, 2), Fraction(1, 2), True, True), Angle(v('cy'), v('sy'), Fraction(-1, 2), Fraction(1, 2), True, True)]
    elif group == 'wedge':
        tilts = [Angle(v('cy'), v('sy'), Fraction(-1, 2), Fraction(1, 2), True, True)]
    vals = {}
    with patched(mod):
        for name, (c, s, q) in {'0': (1, 0, 0), 'h': (0, 1, Fraction(1, 2)), 'p': (-1, 0, 1), 'm': (0, -1, Fraction(-1, 2))}.items():
            if group == 'quart':
                # quart_to_omega wants the half angle: build w as a double
                hc, hs = {'0': (1, 0), 'h': (None, None), 'p': (0, 1), 'm': (None, None)}[name]
                if hc is None:
                    continue
                w = Angle.double(Angle(hc, hs, q / 2, q / 2))
            else:
                w = Angle(c, s, q, q)
            M = own_matrix(mod, group, w, tilts)
            vals[name] = np.dot(M, g)[0] + st * st
    return vals


def discriminant(f, group):
    """a^2 + b^2 - c^2 of the condition a cos w + b sin w = c, written independently in the harness from the documented matrices"""
    v = f.var
    st = v('st')
    g0, g1, g2 = v('g0'), v('g1'), v('g2')
    if group in ('general', 'quart'):
        R = C.mdot(C.Rx(v('cx'), v('sx')), C.Ry(v('cy'), v('sy')))
    elif group == 'wedge':
        R = C.Ry(v('cy'), -v('sy'))
    else:
        R = C.eye3()
    if group == 'quart':
        # P Rz(w) P^T g : x-row = sum_k P[0,k] (Rz P^T g)_k
        Pm = R
        h = np.dot(Pm.T, C.oa([g0, g1, g2]))
        a = Pm[0, 0] * h[0] + Pm[0, 1] * h[1]
        b = Pm[0, 1] * h[0] - Pm[0, 0] * h[1]
        c = -st * st - Pm[0, 2] * h[2]
    else:
        a = R[0, 0] * g0 + R[0, 1] * g1
        b = R[0, 1] * g0 - R[0, 0] * g1
        c = -st * st - R[0, 2] * g2
    a, b, c = lift(a), lift(b), lift(c)
    return a * a + b * b - c * c, a * a + b * b, (a, b, c)


def affine_check(f, mod, group, g):
    """the module's own matrix at w=0, pi/2, pi, -pi/2 must be consistent with A cos w + B sin w + C0 and reproduce the harness (a,b,c)"""
    try:
        vals = condition_coeffs(f, mod, group, g)
    except Exception as e:
        return False, 'could not evaluate the matrix builder at fixed angles: %r' % (e,)
    disc, lin2, (a, b, c) = discriminant(f, group)
    ok = True
    msg = []
    # F(0) = a - c ; F(pi) = -a - c ; F(pi/2) = b - c ; F(-pi/2) = -b - c
    exp = {'0': a - c, 'p': -a - c, 'h': b - c, 'm': -b - c}
    for k, val in vals.items():
        if not (lift(val) - exp[k]).iszero():
            ok = False
            msg.append('F(%s) mismatch' % k)
    return ok, 'condition (Omega(w) g)_x + sin^2(theta) equals a.cos w + b.sin w - c with the harness coefficients at w in {0, pi/2, pi, -pi/2}: %s' % (msg or 'ok')


def run_tth(u, desc, mod, modname, tier):
    """tth(cell,hkl,lambda) = 2 asin(lambda*sintl) = tth2(U.B.hkl, lambda)"""
    from .c02 import QN
    names = C.CELL_NAMES + ['pi', 'h', 'k', 'l', 'lam'] + QN
    f = Field(names, naux=8)
    C.cell_setup(f)
    C.quat_setup(f)
    f.positive('pi', 'lam')
    ctx = Ctx(f)
    zc = ctx.zc
    v = f.var
    ctx.pre = C.cell_pre(zc, f) + smt.pi_enclosure(zc)
    cell = C.cell_of(f)
    hkl = [v('h'), v('k'), v('l')]
    U = C.quat_rot(f)

    def body():
        with patched(mod):
            stl = mod.sintl(cell, hkl)
            B = mod.form_b_mat(cell)
            gve = np.dot(U, np.dot(B, C.oa(hkl)))
            return {'stl': stl, 't1': mod.tth(cell, hkl, v('lam')), 't2': mod.tth2(gve, v('lam'))}
    leaves, exh = ctx.explore(body, max_paths=16)
    u.exhaustive = exh
    u.decisions = ctx.decisions
    for li, leaf in enumerate(leaves):
        u.paths += 1
        tag = '' if li == 0 else '/path%d' % li
        pre = ctx.base() + leaf['pc'] + [z3.Or(zc.cmp0(v('h'), '!='), zc.cmp0(v('k'), '!='), zc.cmp0(v('l'), '!='))]
        o = leaf['result']
        if leaf['exception'] is not None:
            u.prove('C09/%s.tth/no-exception%s' % (modname, tag), pre, z3.BoolVal(False), replay=None, detail=repr(leaf['exception']))
            continue
        pre = pre + [zc.cmp0(v('lam') * o['stl'] - 1, '<')]
        t1, t2 = o['t1'], o['t2']
        form = isinstance(t1, Angle) and isinstance(t2, Angle) and t1.r == 2 and t2.r == 2 and t1.p == 0 and t2.p == 0
        u.prove('C09/%s.tth/form%s' % (modname, tag), pre, z3.BoolVal(bool(form)), replay=None, detail='tth and tth2 return 2*arcsin(.)')
        if form:
            u.prove('C09/%s.tth=2asin(lambda.sintl)%s' % (modname, tag), pre, C.resid_goal(zc, [t1.s - v('lam') * o['stl']]), replay=mk_replay_tth(f, modname), detail='sine of the half angle')
            d = t2.s * t2.s - t1.s * t1.s
            u.prove('C09/%s.tth2(U.B.h)=tth%s' % (modname, tag), pre, z3.And(C.resid_goal(zc, [d]), zc.cmp0(t2.s, '>='), zc.cmp0(t1.s, '>=')),
                    replay=mk_replay_tth(f, modname), detail='squared sines of the half angles agree and both are nonnegative', timeout=60, sample=True)


# -----------------------------------------------------------------------------------------------

def tilt_floats(env, group):
    if group in ('general', 'quart'):
        return [math.atan2(env['sx'], env['cx']), math.atan2(env['sy'], env['cy'])]
    if group == 'wedge':
        return [math.atan2(env['sy'], env['cy'])]
    return []


def prime(mod):
    """history: every solver call under test is preceded, in the same process, by legal calls of the tilted solvers with OTHER tilts
    (chi = wedge = 0, exact cosines, so that 'same tilt as last time' is a decidable path condition for the symbolic tilts).
    The result under test must not depend on it."""
    th = 0.3
    gp = np.array([0.6, -0.64, 0.48]) * math.sin(th)
    for fn in ('find_omega_general', 'find_omega_quart', 'find_omega_wedge'):
        try:
            if fn == 'find_omega_wedge':
                getattr(mod, fn)(gp, 2 * th, 0.0)
            else:
                getattr(mod, fn)(gp, 2 * th, 0.0, 0.0)
        except Exception:
            pass


def real_call(mod, modname, group, g, twoth, tilts):
    prime(mod)
    if group == 'general':
        return mod.find_omega_general(g, twoth, tilts[0], tilts[1])
    if group == 'quart':
        return mod.find_omega_quart(g, twoth, tilts[0], tilts[1])
    if group == 'wedge':
        return mod.find_omega_wedge(g, twoth, tilts[0])
    return mod.find_omega(g, twoth), None


def real_matrix(mod, group, omega, tilts):
    if group == 'general':
        return mod.form_omega_mat_general(omega, tilts[0], tilts[1])
    if group == 'quart':
        return mod.quart_to_omega(math.degrees(omega), tilts[0], tilts[1])
    if group == 'wedge':
        w = tilts[0]
        Ry = np.array([[math.cos(w), 0, -math.sin(w)], [0, 1, 0], [math.sin(w), 0, math.cos(w)]])
        return Ry @ mod.form_omega_mat(omega)
    return mod.form_omega_mat(omega)


def env_inputs(env, modname, group):
    theta = math.atan2(env['st'], env['ct'])
    g = np.array([env['g0'], env['g1'], env['g2']])
    g = g * (math.sin(theta) / np.linalg.norm(g))
    kap = env.get('kap', 1.0)
    return theta, g, kap, tilt_floats(env, group)


def validate(mod, modname, group, o, env):
    try:
        theta, g, kap, tilts = env_inputs(env, modname, group)
        om, eta = real_call(mod, modname, group, g * (kap if modname == 'laue' else 1.0), 2 * theta, tilts)
        if len(om) != len(o['om']):
            return False
        so = [C.evalq(x, env) for x in o['om']]
        return C.close(np.sort(np.asarray(om, float)), np.sort(so), 1e-6, 1e-7)
    except Exception:
        return False


def numeric(modname, group, theta, g, kap, tilts, tol=1e-6):
    mod = importlib.import_module('xfab.' + modname)
    bad = []
    try:
        gin = np.asarray(g, float) * (kap if modname == 'laue' else 1.0)
        om, eta = real_call(mod, modname, group, gin, 2 * theta, tilts)
        s2 = math.sin(theta) ** 2
        g = np.asarray(g, float)
        # reference count from the harness discriminant
        if group in ('general', 'quart'):
            cx, sx, cy, sy = math.cos(tilts[0]), math.sin(tilts[0]), math.cos(tilts[1]), math.sin(tilts[1])
            R = np.array([[1, 0, 0], [0, cx, -sx], [0, sx, cx]]) @ np.array([[cy, 0, sy], [0, 1, 0], [-sy, 0, cy]])
        elif group == 'wedge':
            w = tilts[0]
            R = np.array([[math.cos(w), 0, -math.sin(w)], [0, 1, 0], [math.sin(w), 0, math.cos(w)]])
        else:
            R = np.eye(3)
        if group == 'quart':
            h = R.T @ g
            a, b, c = R[0, 0] * h[0] + R[0, 1] * h[1], R[0, 1] * h[0] - R[0, 0] * h[1], -s2 - R[0, 2] * h[2]
        else:
            a, b, c = R[0, 0] * g[0] + R[0, 1] * g[1], R[0, 1] * g[0] - R[0, 0] * g[1], -s2 - R[0, 2] * g[2]
        disc = a * a + b * b - c * c
        if abs(disc) > 1e-6 * (a * a + b * b):
            want = 2 if disc > 0 else 0
            if len(om) != want:
                bad.append(('count', 'returned %d solutions, discriminant %.3g says %d' % (len(om), disc, want)))
        for i, w in enumerate(om):
            if not (-math.pi < w <= math.pi + 1e-12):
                bad.append(('omega range', str(w)))
            gt = real_matrix(mod, group, w, tilts) @ g
            if abs(gt[0] + s2) > tol * max(s2, 1e-3):
                bad.append(('x-component', 'omega=%.9f: (Omega g)_x=%.9g expected %.9g' % (w, gt[0], -s2)))
            if eta is not None:
                e = eta[i]
                s2t = math.sin(2 * theta)
                if abs(gt[1] + s2t * math.sin(e) / 2) > tol * max(s2t, 1e-3) or abs(gt[2] - s2t * math.cos(e) / 2) > tol * max(s2t, 1e-3):
                    bad.append(('eta', 'omega=%.9f eta=%.9f: (y,z)=(%.9g,%.9g) expected (%.9g,%.9g)' % (w, e, gt[1], gt[2], -s2t * math.sin(e) / 2, s2t * math.cos(e) / 2)))
        if len(om) == 2 and abs(disc) > 1e-6 * (a * a + b * b) and abs(math.remainder(om[0] - om[1], 2 * math.pi)) < 1e-9:
            bad.append(('distinct', 'two identical solutions'))
    except Exception as e:
        bad.append(('exception', repr(e)))
    return bad


def mk_replay(f, modname, group):
    def replay(model):
        env = C.env_from_model(f, model)
        theta, g, kap, tilts = env_inputs(env, modname, group)
        rec = {'module': modname, 'group': group, 'theta': theta, 'g': g.tolist(), 'kap': kap, 'tilts': tilts}
        bad = numeric(modname, group, theta, g, kap, tilts)
        if bad:
            return True, rec, '; '.join('%s: %s' % b for b in bad[:2])
        return False, rec, 'property holds numerically at the model (theta=%.6f g=%s tilts=%s)' % (theta, g.tolist(), tilts)
    return replay


def mk_replay_tth(f, modname):
    def replay(model):
        from .c02 import rot_from_quat, quat_floats
        env = C.env_from_model(f, model)
        rec = {'module': modname, 'group': 'tth', 'cell': C.cell_floats(env), 'hkl': [env['h'], env['k'], env['l']], 'lam': env['lam'], 'q': quat_floats(env).tolist()}
        bad = numeric_tth(rec)
        if bad:
            return True, rec, '; '.join('%s: %s' % b for b in bad[:2])
        return False, rec, 'property holds numerically at the model'
    return replay


def numeric_tth(rec, tol=1e-6):
    from .c02 import rot_from_quat
    mod = importlib.import_module('xfab.' + rec['module'])
    bad = []
    try:
        stl = mod.sintl(rec['cell'], rec['hkl'])
        if rec['lam'] * stl >= 1:
            return []
        t1 = mod.tth(rec['cell'], rec['hkl'], rec['lam'])
        U = rot_from_quat(np.asarray(rec['q']) / np.linalg.norm(rec['q']))
        t2 = mod.tth2(U @ mod.form_b_mat(rec['cell']) @ np.asarray(rec['hkl'], float), rec['lam'])
        ref = 2 * math.asin(rec['lam'] * stl)
        if abs(t1 - ref) > tol:
            bad.append(('tth', '%r vs %r' % (t1, ref)))
        if abs(t2 - ref) > tol:
            bad.append(('tth2', '%r vs %r' % (t2, ref)))
    except Exception as e:
        bad.append(('exception', repr(e)))
    return bad


def replay(rec):
    r = rec['replay']
    if r['group'] == 'tth':
        bad = numeric_tth(r)
    else:
        bad = numeric(r['module'], r['group'], r['theta'], r['g'], r['kap'], r['tilts'])
    return bool(bad), '; '.join('%s: %s' % b for b in bad) or 'property holds on the recorded input'
