"""C01 — cell, A/B matrices, volume and sin(theta)/lambda share one metric (both modules)."""
import importlib
import math
from fractions import Fraction

import numpy as np
import z3

from vengine.field import Field, Q, lift
from vengine.angle import Angle
from vengine.explore import Ctx
from vengine import smt
from vengine.symnp import patched
from . import common as C

FUNCS = ['cell_volume', 'form_a_mat', 'form_a_mat_inv', 'form_b_mat', 'cell_invert', 'a_to_cell', 'b_to_cell', 'sintl']
META = {
    'explanation': 'The real functions are executed once on a fully symbolic cell (a,b,c>0; cos/sin of the three angles '
                   'with s^2=1-c^2, s>0; Gram determinant >= 0.02), pi symbolic inside a 1e-14 enclosure, real (not only integer) hkl. '
                   'Outputs are rational functions modulo the defining relations; each obligation is sent to z3/cvc5 as '
                   'preconditions & relations & not(goal); unsat = holds for every cell in the domain (exact real arithmetic).',
    'functions': ['xfab.%s.%s' % (m, f) for m in ('tools', 'laue') for f in FUNCS],
    'bounds': {'cell': 'a,b,c>0; angles in (0,180) deg; Gram determinant >= 0.02', 'hkl': 'all real (h,k,l) != 0 (superset of integers)',
               'arithmetic': 'exact reals; binary64 rounding outside the claim'},
    'outside_claim': ['floating-point rounding / overflow', 'cells with Gram determinant < 0.02'],
    'stubs': ['numpy cos/sin of Angle=(c,s) pair', 'sqrt as nonnegative root with defining relation', 'linalg.inv as adjugate/det', 'arccos -> Angle window [0,pi]'],
    'assumptions': ['real-arithmetic model of the source formulas', 'pi in (3.14159265358979, 3.14159265358980)',
                    'polynomial normal form modulo s^2=1-c^2 (cross-checked numerically against the real functions at solver models)'],
}
GROUPS = ['matrices', 'sintl', 'a_roundtrip', 'b_roundtrip', 'cell_invert']


def units(tier):
    return [{'name': '%s/%s' % (m, g), 'module': m, 'group': g} for m in ('tools', 'laue') for g in GROUPS]


def setup(extra=(), naux=10):
    f = Field(C.CELL_NAMES + ['pi'] + list(extra), naux=naux)
    C.cell_setup(f)
    f.positive('pi')
    ctx = Ctx(f)
    ctx.pre = C.cell_pre(ctx.zc, f) + smt.pi_enclosure(ctx.zc)
    return f, ctx, C.cell_of(f)


def kappa(modname, f):
    return 2 * f.var('pi') if modname == 'tools' else lift(1)


def run_unit(u, desc, tier, seed):
    modname, group = desc['module'], desc['group']
    mod = importlib.import_module('xfab.' + modname)
    import xfab
    xfab.CHECKS.activated = True
    extra = ['h', 'k', 'l'] if group == 'sintl' else []
    f, ctx, cell = setup(extra)
    zc = ctx.zc
    kap = kappa(modname, f)
    G = C.metric(f)
    def body():
        ctx.domain = []
        with patched(mod):
            if group == 'matrices':
                return {'A': mod.form_a_mat(cell), 'B': mod.form_b_mat(cell), 'V': mod.cell_volume(cell), 'Ainv': mod.form_a_mat_inv(cell),
                        'domain': list(ctx.domain)}
            if group == 'sintl':
                hkl = [f.var('h'), f.var('k'), f.var('l')]
                return {'stl': mod.sintl(cell, hkl), 'B': mod.form_b_mat(cell), 'domain': list(ctx.domain)}
            if group == 'a_roundtrip':
                return {'cell2': mod.a_to_cell(mod.form_a_mat(cell)), 'domain': list(ctx.domain)}
            if group == 'b_roundtrip':
                return {'cell2': mod.b_to_cell(mod.form_b_mat(cell)), 'domain': list(ctx.domain)}
            if group == 'cell_invert':
                cs = mod.cell_invert(cell)
                return {'cstar': cs, 'cell2': mod.cell_invert(cs), 'domain': list(ctx.domain)}

    leaves, exh = ctx.explore(body, max_paths=64)
    u.exhaustive = exh
    u.decisions = ctx.decisions
    base = ctx.base()
    if group == 'sintl':
        h, k, l = f.var('h'), f.var('k'), f.var('l')
        base = base + [z3.Or(zc.cmp0(h, '!='), zc.cmp0(k, '!='), zc.cmp0(l, '!='))]
    for li, leaf in enumerate(leaves):
        u.paths += 1
        tag = '' if li == 0 else '/path%d' % li
        pre = base + leaf['pc']
        prove_leaf(u, desc, mod, modname, group, f, ctx, cell, G, kap, leaf, pre, tag, first=(li == 0))


def prove_leaf(u, desc, mod, modname, group, f, ctx, cell, G, kap, leaf, pre, tag, first):
    zc = ctx.zc

    def rp(key):
        def replay(model):
            env = C.env_from_model(f, model)
            cellf = C.cell_floats(env)
            hklf = [env.get('h', 1.0), env.get('k', 0.0), env.get('l', 0.0)]
            bad = numeric(modname, group, cellf, hklf)
            rec = {'module': modname, 'group': group, 'cell': cellf, 'hkl': hklf}
            if bad:
                return True, rec, '; '.join('%s: %s' % b for b in bad[:3])
            return False, rec, 'numeric property holds at the model (cell=%s)' % (cellf,)
        return replay

    def P(name, goal, **kw):
        key = 'C01/%s.%s%s' % (modname, name, tag)
        u.prove(key, pre, goal, replay=rp(key), detail=name, sample=True, **kw)

    if leaf['exception'] is not None:
        P('%s/no-exception' % group, z3.BoolVal(False))
        return
    outs = leaf['result']
    hv = dict(C.CELL_HINT)
    if group == 'sintl':
        hv.update({'h': '1', 'k': '-2', 'l': '3'})
    model = u.reach(desc['name'] + tag, pre, hints=C.hints_from(zc, hv))
    if model is not None:
        env = C.env_from_model(f, model)
        if validate(mod, modname, group, outs, env):
            u.validated += 1
        else:
            u.add(desc['name'] + tag + '/translator', 'error', 'symbolic outputs disagree with the real function at the path witness')
    # repository test inputs through both (on the path they belong to)
    for tc in ([3, 4, 5, 80, 95, 100], [2, 3, 4, 90.5, 91, 89], [7.1, 8.2, 9.3, 65, 110, 99]):
        env = env_for_cell(f, tc, hkl=(1, -2, 3))
        if C.pc_holds(zc, leaf['pc'], env):
            if validate(mod, modname, group, outs, env):
                u.validated += 1
            else:
                u.add(desc['name'] + '/translator', 'error', 'symbolic outputs disagree with the real function on test cell %s' % tc)

    if group == 'matrices':
        A, B, V, Ai = outs['A'], outs['B'], outs['V'], outs['Ainv']
        lower = [A[1, 0], A[2, 0], A[2, 1], B[1, 0], B[2, 0], B[2, 1]]
        P('form_a_mat,form_b_mat/upper-triangular', C.resid_goal(zc, lower))
        for i in range(3):
            P('form_a_mat/diag%d>0' % i, zc.cmp0(A[i, i], '>'), timeout=30)
            P('form_b_mat/diag%d>0' % i, zc.cmp0(B[i, i], '>'), timeout=30)
        AtA = np.dot(A.T, A)
        P('form_a_mat/AtA=G', C.resid_goal(zc, C.flat(AtA - G)))
        BtBG = np.dot(np.dot(B.T, B), G)
        P('form_b_mat/BtB.G=kappa^2.I', C.resid_goal(zc, C.flat(BtBG - kap * kap * C.eye3())))
        from vengine.symnp import SYMNP
        detA = SYMNP.linalg.det(A)
        P('cell_volume/detA=V', C.resid_goal(zc, [detA - V]))
        a, b, c = f.var('a'), f.var('b'), f.var('c')
        P('cell_volume/V^2=a2b2c2.Gram', C.resid_goal(zc, [V * V - a * a * b * b * c * c * C.gram(f)]))
        P('cell_volume/V>0', zc.cmp0(V, '>'), timeout=30)
        P('form_a_mat_inv/Ainv.A=I', C.resid_goal(zc, C.flat(np.dot(Ai, A) - C.eye3())))
        P('form_a_mat_inv/A.Ainv=I', C.resid_goal(zc, C.flat(np.dot(A, Ai) - C.eye3())))
    elif group == 'sintl':
        stl, B = outs['stl'], outs['B']
        hkl = C.oa([f.var('h'), f.var('k'), f.var('l')])
        g = np.dot(B, hkl)
        gg = np.dot(g, g)
        fac = 4 * f.var('pi') if modname == 'tools' else lift(2)
        P('sintl/(fac.stl)^2=|B.h|^2', C.resid_goal(zc, [fac * fac * stl * stl - gg]))
        P('sintl/stl>0', zc.cmp0(stl, '>'), timeout=30)
    elif group in ('a_roundtrip', 'b_roundtrip'):
        c2 = outs['cell2']
        nm = 'a_to_cell(form_a_mat)' if group == 'a_roundtrip' else 'b_to_cell(form_b_mat)'
        P(nm + '/lengths', C.resid_goal(zc, [c2[i] - cell[i] for i in range(3)]))
        for i in (3, 4, 5):
            ok = isinstance(c2[i], Angle) and c2[i].is_deg() and c2[i].lo is not None and c2[i].lo >= 0 and c2[i].hi <= 1
            if not ok:
                u.add('C01/%s.%s/angle%d-form' % (modname, nm, i), 'error', 'returned angle is not a degree Angle in [0,180]: %r' % (c2[i],))
                continue
            P(nm + '/angle%d' % i, C.resid_goal(zc, [c2[i].c - cell[i].c]))
    elif group == 'cell_invert':
        cs, c2 = outs['cstar'], outs['cell2']
        # reciprocal cell: metric of cstar times G is identity
        Gs = np.empty((3, 3), dtype=object)
        for i in range(3):
            for j in range(3):
                if i == j:
                    Gs[i, j] = cs[i] * cs[i]
                else:
                    kk = 3 + (3 - i - j)
                    Gs[i, j] = cs[i] * cs[j] * cs[kk].c
        P('cell_invert/Gstar.G=I', C.resid_goal(zc, C.flat(np.dot(Gs, G) - C.eye3())))
        for i in range(3):
            P('cell_invert/length%d>0' % i, zc.cmp0(cs[i], '>'), timeout=30)
        for i in (3, 4, 5):
            P('cell_invert/|cos*%d|<1' % i, z3.And(zc.cmp0(cs[i].c - 1, '<'), zc.cmp0(cs[i].c + 1, '>')), timeout=60)
        P('cell_invert(cell_invert)/lengths', C.resid_goal(zc, [c2[i] - cell[i] for i in range(3)]))
        for i in (3, 4, 5):
            P('cell_invert(cell_invert)/angle%d' % i, C.resid_goal(zc, [c2[i].c - cell[i].c]))
    # sqrt-domain side obligations recorded by the engine
    for n, (kind, formula, pc) in enumerate(outs['domain']):
        u.prove('C01/%s.%s/domain%d:%s%s' % (modname, group, n, kind, tag), pre, formula, replay=rp('domain'), detail=kind, timeout=30)


def env_for_cell(f, cell, hkl=(1, 0, 0)):
    m = {'a': cell[0], 'b': cell[1], 'c': cell[2], 'cal': math.cos(math.radians(cell[3])), 'cbe': math.cos(math.radians(cell[4])),
         'cga': math.cos(math.radians(cell[5])), 'sal': 1, 'sbe': 1, 'sga': 1, 'h': hkl[0], 'k': hkl[1], 'l': hkl[2]}
    return C.env_from_model(f, m)


def validate(mod, modname, group, outs, env):
    """symbolic outputs evaluated at env == real function on floats"""
    cellf = C.cell_floats(env)
    try:
        if group == 'matrices':
            return (C.close(C.evalarr(outs['A'], env), mod.form_a_mat(cellf)) and C.close(C.evalarr(outs['B'], env), mod.form_b_mat(cellf))
                    and C.close(C.evalq(outs['V'], env), mod.cell_volume(cellf)) and C.close(C.evalarr(outs['Ainv'], env), mod.form_a_mat_inv(cellf)))
        if group == 'sintl':
            hkl = [env['h'], env['k'], env['l']]
            return C.close(C.evalq(outs['stl'], env), mod.sintl(cellf, hkl))
        if group == 'a_roundtrip':
            return C.close([C.evalq(x, env) for x in outs['cell2']], mod.a_to_cell(mod.form_a_mat(cellf)))
        if group == 'b_roundtrip':
            return C.close([C.evalq(x, env) for x in outs['cell2']], mod.b_to_cell(mod.form_b_mat(cellf)))
        if group == 'cell_invert':
            return C.close([C.evalq(x, env) for x in outs['cstar']], mod.cell_invert(cellf))
    except Exception:
        return False
    return False


def numeric(modname, group, cell, hkl, tol=1e-6):
    """independent concrete check of the property on the real code; returns list of (name, detail) failures"""
    mod = importlib.import_module('xfab.' + modname)
    a, b, c = cell[:3]
    ca, cb, cg = [math.cos(math.radians(x)) for x in cell[3:]]
    G = np.array([[a * a, a * b * cg, a * c * cb], [a * b * cg, b * b, b * c * ca], [a * c * cb, b * c * ca, c * c]])
    kap = 2 * math.pi if modname == 'tools' else 1.0
    bad = []

    def chk(name, x, y):
        x = np.asarray(x, float)
        y = np.asarray(y, float)
        sc = max(1.0, float(np.max(np.abs(y))))
        if not np.all(np.isfinite(x)) or np.max(np.abs(x - y)) > tol * sc:
            bad.append((name, 'got %s expected %s' % (np.round(x, 8).tolist(), np.round(y, 8).tolist())))
    if group == 'matrices':
        A = mod.form_a_mat(cell)
        B = mod.form_b_mat(cell)
        V = mod.cell_volume(cell)
        chk('upper-triangular', [A[1, 0], A[2, 0], A[2, 1], B[1, 0], B[2, 0], B[2, 1]], np.zeros(6))
        if min(np.diag(A)) <= 0 or min(np.diag(B)) <= 0:
            bad.append(('diag>0', 'diag A %s diag B %s' % (np.diag(A), np.diag(B))))
        chk('AtA=G', A.T @ A, G)
        chk('BtB.G=kappa^2.I', (B.T @ B @ G) / kap ** 2, np.eye(3))
        chk('detA=V', np.linalg.det(A), V)
        chk('V^2=a2b2c2.Gram', V * V, np.linalg.det(G))
        if not V > 0:
            bad.append(('V>0', str(V)))
        chk('Ainv.A=I', mod.form_a_mat_inv(cell) @ A, np.eye(3))
    elif group == 'sintl':
        B = mod.form_b_mat(cell)
        g = B @ np.asarray(hkl, float)
        ref = math.sqrt(g @ g) / (4 * math.pi if modname == 'tools' else 2.0)
        chk('stl', mod.sintl(cell, hkl), ref)
    elif group == 'a_roundtrip':
        chk('a_to_cell', mod.a_to_cell(mod.form_a_mat(cell)), cell)
    elif group == 'b_roundtrip':
        chk('b_to_cell', mod.b_to_cell(mod.form_b_mat(cell)), cell)
    elif group == 'cell_invert':
        cs = mod.cell_invert(cell)
        cas, cbs, cgs = [math.cos(math.radians(x)) for x in cs[3:]]
        Gs = np.array([[cs[0] ** 2, cs[0] * cs[1] * cgs, cs[0] * cs[2] * cbs], [cs[0] * cs[1] * cgs, cs[1] ** 2, cs[1] * cs[2] * cas],
                       [cs[0] * cs[2] * cbs, cs[1] * cs[2] * cas, cs[2] ** 2]])
        chk('Gstar.G=I', Gs @ G, np.eye(3))
        chk('cell_invert(cell_invert)', mod.cell_invert(cs), cell)
    return bad


def replay(rec):
    r = rec['replay']
    bad = numeric(r['module'], r['group'], r['cell'], r['hkl'])
    return bool(bad), '; '.join('%s: %s' % b for b in bad) or 'property holds on the recorded input'
