"""C15 — site multiplicity equals the number of symmetry-equivalent positions in the cell."""
import itertools
from fractions import Fraction

import numpy as np
import z3

from vengine.field import Field, EngineError
from vengine.explore import Ctx
from vengine import smt, zprox
from vengine.symnp import patched
from .c04 import RHOMB, snap24, settings

META = {
    'explanation': 'The real structure.multiplicity runs on (i) grid points of the property\'s grid given as binary64 floats with three lattice shifts (concrete inputs; the solver adds nothing there) and '
                   '(ii) the families (x,y,z), (x,x,z), (x,2x,z), (x,-x,z) with x,y,z ranging over small boxes around generic values.  numpy.mod(t,1) is '
                   't - floor(t); every `sum(mod(t,1)) < 1e-5` test of the code is a path decision (decided by the solver for all positions in the family, '
                   'forking only where both outcomes are possible).  Code side: the table\'s literal decimals (0.333333 is 333333/10^6).  Oracle side: '
                   'orbit-stabiliser on the ideal operators (24ths): nsymop / #{i : R_i x + t_i - x in Z^3}.',
    'functions': ['xfab.structure.multiplicity', 'xfab.sg.sg.__init__'],
    'bounds': {'settings': 'quick: grid points for every setting with nsymop <= 48, symbolic families for nsymop <= 16 plus Sg139, 166, 191, 221; thorough: all 237',
               'positions': 'grid points (0,0,0), (1/2,1/2,1/2), (1/3,2/3,1/4), (1/4,1/4,1/4), (0,1/2,1/4), (1/8,3/8,5/8), (2/3,1/3,5/6), (1/6,5/6,1/2) with |d|<=1e-12 and integer shifts; '
                            'families with x in [0.1234,0.1235], y in [0.2718,0.2719], z in [0.3141,0.3142]'},
    'outside_claim': ['grid points not listed', 'positions within 1e-3 of a special position but not on it (the 1e-5 merging tolerance is intended behaviour there)'],
    'stubs': ['numpy.mod(t,1) -> t - floor(t) (z3 to_int)', 'coordinates as z3 reals'],
    'assumptions': ['operators form a group (C04), so the orbit size is nsymop divided by the stabiliser order'],
}
LARGE_SAMPLE = (139, 166, 191, 221)      # quick tier: symbolic families for groups with more than 16 operations only on this sample
GRID = [(0, 0, 0), (Fraction(1, 2),) * 3, (Fraction(1, 3), Fraction(2, 3), Fraction(1, 4)), (Fraction(1, 4),) * 3, (0, Fraction(1, 2), Fraction(1, 4)),
        (Fraction(1, 8), Fraction(3, 8), Fraction(5, 8)), (Fraction(2, 3), Fraction(1, 3), Fraction(5, 6)), (Fraction(1, 6), Fraction(5, 6), Fraction(1, 2))]
FAMILIES = {'xyz': ((1, 0, 0), (0, 1, 0), (0, 0, 1)), 'xxz': ((1, 0, 0), (1, 0, 0), (0, 0, 1)), 'x2xz': ((1, 0, 0), (2, 0, 0), (0, 0, 1)), 'x-xz': ((1, 0, 0), (-1, 0, 0), (0, 0, 1))}
BOX = {'x': (Fraction(1234, 10000), Fraction(1235, 10000)), 'y': (Fraction(2718, 10000), Fraction(2719, 10000)), 'z': (Fraction(3141, 10000), Fraction(3142, 10000))}


def units(tier):
    from xfab import sg as sgmod
    us = []
    small = []
    for (no, cc) in settings():
        n = int(sgmod.sg(sgno=no, cell_choice=cc).nsymop)
        if tier == 'quick' and n > 48:
            continue
        fam = (tier != 'quick' or n <= 16 or no in LARGE_SAMPLE)
        cost = n * n * (4 if fam else 0) + 24 * n
        if cost > 3000:
            us.append({'name': 'sg:%d%s' % (no, 'r' if cc[0] == 'r' else ''), 'settings': [(no, cc)], 'cost': cost})
        else:
            small.append((no, cc, cost))
    for i in range(0, len(small), 6):
        ch = small[i:i + 6]
        us.append({'name': 'sg:' + ','.join('%d%s' % (a, 'r' if b[0] == 'r' else '') for a, b, c in ch), 'settings': [(a, b) for a, b, c in ch], 'cost': sum(c for a, b, c in ch)})
    return us


def ideal_ops(s):
    ops = []
    for R, t in zip(np.asarray(s.rot), np.asarray(s.trans)):
        ops.append(([[int(round(x)) for x in r] for r in R], [Fraction(snap24(x)[0], 24) for x in t]))
    return ops


def oracle_count(ops, pos):
    """orbit size for an exact rational position"""
    n = len(ops)
    stab = 0
    for R, t in ops:
        img = [sum(R[i][j] * pos[j] for j in range(3)) + t[i] for i in range(3)]
        if all((img[i] - pos[i]).denominator == 1 for i in range(3)):
            stab += 1
    return Fraction(n, stab)


def oracle_count_family(ops, fam):
    """orbit size for a generic member of an affine family: operators that fix the family identically"""
    n = len(ops)
    stab = 0
    for R, t in ops:
        good = True
        for i in range(3):
            # image_i - pos_i as an affine function of the parameters (x,y,z): coefficients must vanish, constant integer
            for p in range(3):
                coef = sum(R[i][j] * fam[j][p] for j in range(3)) - fam[i][p]
                if coef != 0:
                    good = False
            if t[i].denominator != 1:
                good = False
        if good:
            stab += 1
    return Fraction(n, stab)


def run_unit(u, desc, tier, seed):
    from xfab import structure, sg as sgmod
    smt.INPROC = True
    f = Field(['dummy'], naux=0)
    for (no, cc) in desc['settings']:
        if no in RHOMB:
            # history independence: the other setting of an R-centred group is requested first in this process
            structure.multiplicity([0.1, 0.2, 0.3], sgno=no, cell_choice=('standard' if cc == 'rhombohedral' else 'rhombohedral'))
        s = getattr(__import__('xfab.sglib', fromlist=['x']), 'Sg%d' % no)(cell_choice=cc)     # fresh table for the oracle (not through sg.sg)
        s.rot, s.trans = np.array(s.rot), np.array(s.trans)
        ops = ideal_ops(s)
        tag = 'Sg%d%s' % (no, '-rhomb' if cc == 'rhombohedral' else '')
        name = None
        for key, klass in sgmod.sgdic.items():
            if klass == 'Sg%d' % no and ((cc == 'rhombohedral') == (key[0] == 'r' and key[-1] == 'r' and len(key) > 2)):
                name = key
                break
        cases = []
        for g in GRID:
            for shift in ((0, 0, 0), (1, -1, 2), (-2, 3, -1)):
                cases.append(('grid%s+%s' % (tuple(str(x) for x in g), shift), 'grid', (g, shift)))
        if tier != 'quick' or s.nsymop <= 16 or no in LARGE_SAMPLE:
            for fn, fam in FAMILIES.items():
                cases.append(('family-' + fn, 'family', fam))
        for ci, (cname, kind, data) in enumerate(cases):
            ctx = Ctx(f, feas_timeout=5.0)
            X, Y, Z = zprox.Real('x'), zprox.Real('y'), zprox.Real('z')
            pre = []
            if kind == 'grid':
                # the grid point "given as floats": the exact binary64 values of g_i + n_i (concrete), three lattice shifts
                g, shift = data
                pos = [float(Fraction(g[i]) + shift[i]) for i in range(3)]
                want = oracle_count(ops, [Fraction(x) for x in g])
            else:
                par = [X, Y, Z]
                nn = [zprox.Int('n%d' % i) for i in range(3)]
                for p, nm in zip(par, 'xyz'):
                    pre += [p.t >= z3.RealVal(str(BOX[nm][0])), p.t <= z3.RealVal(str(BOX[nm][1]))]
                pos = []
                for i in range(3):
                    pre += [nn[i].t >= -2, nn[i].t <= 2]
                    e = z3.ToReal(nn[i].t)
                    for p in range(3):
                        if data[i][p]:
                            e = e + data[i][p] * par[p].t
                    pos.append(zprox.ZNum(e))
                want = oracle_count_family(ops, data)
            ctx.pre = pre
            by_name = (ci % 2 == 1 and name is not None)

            def body():
                with patched(structure):
                    if by_name:
                        return structure.multiplicity(pos, sgname=name)
                    return structure.multiplicity(pos, sgno=no, cell_choice=cc)
            try:
                leaves, exh = ctx.explore(body, max_paths=40, max_seconds=60)
            except EngineError as e:
                u.add('C15/%s/%s/engine' % (tag, cname), 'error', str(e)[:300])
                continue
            u.decisions += ctx.decisions
            if not exh:
                u.exhaustive = False
            for leaf in leaves:
                u.paths += 1
                if leaf['exception'] is not None:
                    u.add('C15/%s/%s' % (tag, cname), 'violated', 'multiplicity raised %r' % (leaf['exception'],), replay={'no': no, 'cc': cc, 'pos': None})
                    continue
                got = leaf['result']

                def rp(model, kind=kind, data=data, got=got):
                    posf = concretize(model, kind, data)
                    ok, text = numeric(no, cc, posf, name if by_name else None)
                    return ok, {'no': no, 'cc': cc, 'pos': posf, 'name': name if by_name else None}, text
                if kind == 'family' and u.paths % 3 == 0:
                    # translator validation at a solver witness of this path: the real multiplicity on floats returns this leaf's value
                    stw, mw, _ = smt.solve(ctx.base() + leaf['pc'], timeout_s=5, cvc5_timeout_s=0)
                    if stw == 'sat' and mw:
                        posw = concretize(mw, kind, data)
                        try:
                            realv = structure.multiplicity(posw, sgno=no, cell_choice=cc)
                            if int(realv) == int(got):
                                u.validated += 1
                            else:
                                u.notes.append('witness %s of %s %s: real multiplicity %s, symbolic path %s' % (posw, tag, cname, realv, got))
                        except Exception as ex:
                            u.notes.append('witness replay failed: %r' % (ex,))
                u.prove('C15/%s/%s' % (tag, cname), ctx.base() + leaf['pc'], z3.BoolVal(Fraction(int(got)) == want), replay=rp,
                        detail='%s %s (%s): multiplicity returned %s on this path, orbit-stabiliser count %s' % (tag, cname, 'by name' if by_name else 'by number', got, want),
                        timeout=30, cvc5_timeout=0, sample=(no in (14, 143) and ci < 2))


def concretize(model, kind, data):
    def val(n, default=0.0):
        v = model.get(n)
        return float(v) if v is not None else default
    if kind == 'grid':
        g, shift = data
        return [float(Fraction(g[i]) + shift[i]) for i in range(3)]
    par = [val('x', 0.12345), val('y', 0.27185), val('z', 0.31415)]
    return [sum(data[i][p] * par[p] for p in range(3)) + val('n%d' % i) for i in range(3)]


def numeric(no, cc, posf, name=None):
    """exact rational oracle on the float's nearest 24th-grid / generic value vs the real function"""
    from xfab import structure, sg as sgmod
    s = sgmod.sg(sgno=no, cell_choice=cc)
    ops = ideal_ops(s)
    exact = [Fraction(x).limit_denominator(1000000) for x in posf]
    want = oracle_count(ops, exact)
    if name:
        got = structure.multiplicity(posf, sgname=name)
    else:
        got = structure.multiplicity(posf, sgno=no, cell_choice=cc)
    return Fraction(int(got)) != want, 'Sg%d %s position %s: multiplicity=%s, orbit size %s' % (no, cc, posf, got, want)


def replay(rec):
    r = rec['replay']
    if r['pos'] is None:
        return True, 'multiplicity raised'
    return numeric(r['no'], r['cc'], r['pos'], r.get('name'))
