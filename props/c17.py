"""C17 — CIF and PDB ingestion reproduces what the file states."""
import itertools
import math
from fractions import Fraction

import numpy as np
import z3

from vengine import smt, zprox
from vengine.symnp import patched

META = {
    'explanation': 'Reader history: the atom-type-loop variants are read by fresh readers in one process in a sequence containing every ordered pair of variants, consecutive files with different elements. '
                   'The real CIFread (driven through its cifblk= parameter with a dict-like block), remove_esd, PDBread (open() rebound to an in-memory file) '
                   'and atomlist.add_atom are executed on files whose numeric fields are opaque tokens: the string operations of the code (find, slicing, '
                   'split, regex sub, upper, fixed-width column slices) run for real on the token text, float()/int() are rebound to a stub that maps a '
                   '(whitespace-padded) token to a solver real and raises ValueError for anything else, so a wrong slice or a wrong key shows as a value that '
                   'is not the intended field.  Every configuration of {Uiso,Uani,Biso,Bani,absent} x {occupancy present/absent} x {multiplicity key: correct '
                   'spelling, old SHELXL spelling, absent} x {atom-type loop: present, present without dispersion, absent} with two atoms is run; obligations '
                   '(z3, linear real arithmetic): cell, space-group string, label, upper-cased type, position, ADP (B/(8 pi^2), order 11,22,33,23,13,12), '
                   'occupancy default 1, multiplicity, dispersion.  PDB: CRYST1/SCALE/ATOM/HETATM fixed-width fields, fractional = SCALE.[x,y,z,1], '
                   'space group tokens without the "1" place-holders, multiplicity computed from the fractional position.',
    'functions': ['xfab.structure.build_atomlist.CIFread', 'xfab.structure.build_atomlist.remove_esd', 'xfab.structure.build_atomlist.PDBread', 'xfab.structure.atomlist.add_atom'],
    'bounds': {'numeric fields': 'all real values (symbolic), with and without esd suffix', 'atoms': '2 per file', 'configurations': '90 CIF + 3 PDB'},
    'outside_claim': ['PyCifRW lexing/parsing of .cif text and CIFopen block selection', 'Python float() grammar (the stub accepts exactly a padded token)', 'more than 2 atoms', 'site multiplicity value (C15)'],
    'stubs': ['float()/int() -> token stub', 'open() -> in-memory lines', 'structure.multiplicity -> recorder returning an opaque value', 'logger -> no-op'],
    'assumptions': ['PyCifRW delivers the file tokens as Python strings'],
}


class Toks:
    def __init__(self):
        self.tab = {}
        self.n = 0

    def num(self, name):
        self.n += 1
        t = '<%d>' % self.n
        self.tab[t] = zprox.ZNum(z3.Real('%s_%d' % (name, self.n)))
        return t

    def val(self, t):
        return self.tab[t.strip()]


T = Toks()


def stub_float(x):
    if isinstance(x, zprox.ZNum):
        return x
    if isinstance(x, str):
        k = x.strip()
        if k in T.tab:
            return T.tab[k]
    return float(x)


def units(tier):
    return [{'name': 'cif', 'group': 'cif'}, {'name': 'pdb', 'group': 'pdb'}]


class Block(dict):
    pass


def eqv(a, b):
    """symbolic/real equality of two stored values"""
    if isinstance(a, zprox.ZNum) or isinstance(b, zprox.ZNum):
        try:
            return z3.is_true(z3.simplify(zprox._z(a) == zprox._z(b)))
        except TypeError:
            return False
    return a == b and type(a) is type(b)


def run_unit(u, desc, tier, seed):
    from xfab import structure
    smt.INPROC = True
    saved = {k: structure.__dict__.get(k) for k in ('float', 'open', 'multiplicity')}
    had = {k: k in structure.__dict__ for k in saved}
    calls = []

    def mult_stub(pos, sgname=None, sgno=None, cell_choice='standard'):
        calls.append((list(pos), sgname))
        return ('MULT', len(calls))
    structure.float = stub_float
    structure.multiplicity = mult_stub
    try:
        if desc['group'] == 'cif':
            run_cif(u, structure, calls)
        else:
            run_pdb(u, structure, calls)
    finally:
        for k, v in saved.items():
            if had[k]:
                structure.__dict__[k] = v
            else:
                structure.__dict__.pop(k, None)


# the atom-type-loop variants are read one after the other by fresh readers in ONE process, in an order that contains every ordered pair
# of variants (full->None, None->nodisp, nodisp->full, full->nodisp, nodisp->None, None->full at the wrap-around), and consecutive files
# contain different elements: nothing of an earlier file may show up in a later one (history independence of the readers)
TLOOP_SEQ = ('full', None, 'nodisp', 'full', 'nodisp', None)


def run_cif(u, structure, calls):
    adps = ['Uiso', 'Uani', 'Biso', 'Bani', None]
    nconf = 0
    allbad = []
    for adp, occ_present, mkey, tloop in itertools.product(adps, (True, False), ('_atom_site_symmetry_multiplicity', '_atom_site_symetry_multiplicity', None), TLOOP_SEQ):
        nconf += 1
        del calls[:]
        b = Block()
        cellt = [T.num('cell') for _ in range(6)]
        esd = ['', '(3)', '(12)', '', '(1)', '(25)']
        for k, t, e in zip(('_cell_length_a', '_cell_length_b', '_cell_length_c', '_cell_angle_alpha', '_cell_angle_beta', '_cell_angle_gamma'), cellt, esd):
            b[k] = t + e
        b['_symmetry_space_group_name_H-M'] = 'P 21/c' if nconf % 2 else ' P n m a\t'
        labels = ['Fe1', 'O2']
        el2 = 'O' if nconf % 2 else 'S'
        types = ['Fe', el2.lower()]
        b['_atom_site_label'] = list(labels)
        b['_atom_site_type_symbol'] = list(types)
        xyz = [[T.num('x'), T.num('y'), T.num('z')] for _ in labels]
        b['_atom_site_fract_x'] = [xyz[0][0] + '(4)', xyz[1][0]]
        b['_atom_site_fract_y'] = [xyz[0][1], xyz[1][1] + '(11)']
        b['_atom_site_fract_z'] = [xyz[0][2] + '(2)', xyz[1][2] + '(7)']
        if adp is not None:
            b['_atom_site_adp_type'] = [adp, adp]
        iso = [T.num('iso'), T.num('iso')]
        if adp == 'Uiso':
            b['_atom_site_U_iso_or_equiv'] = [iso[0] + '(5)', iso[1]]
        if adp == 'Biso':
            b['_atom_site_B_iso_or_equiv'] = [iso[0], iso[1] + '(9)']
        ani = {}
        if adp in ('Uani', 'Bani'):
            b['_atom_site_aniso_label'] = ['O2', 'Fe1']          # deliberately in another order than the atom loop
            for ij in ('11', '22', '33', '23', '13', '12'):
                ani[ij] = [T.num('a' + ij), T.num('a' + ij)]
                b['_atom_site_aniso_%s_%s' % (adp[0], ij)] = [ani[ij][0] + '(6)', ani[ij][1]]
        occ = [T.num('occ'), T.num('occ')]
        if occ_present:
            b['_atom_site_occupancy'] = [occ[0], occ[1] + '(2)']
        mult = [T.num('mult'), T.num('mult')]
        if mkey:
            b[mkey] = list(mult)
        disp = {'FE': [T.num('fp'), T.num('fpp')], el2: [T.num('fp'), T.num('fpp')]}
        if tloop:
            b['_atom_type_symbol'] = [el2, 'Fe']
            if tloop == 'full':
                b['_atom_type_scat_dispersion_real'] = [disp[el2][0] + '(1)', disp['FE'][0]]
                b['_atom_type_scat_dispersion_imag'] = [disp[el2][1], disp['FE'][1] + '(3)']
        bad = []
        try:
            bl = structure.build_atomlist()
            bl.CIFread(cifblk=b)
        except Exception as e:
            allbad.append('config adp=%s occ=%s mkey=%s tloop=%s: CIFread raised %r' % (adp, occ_present, mkey, tloop, e))
            continue
        al = bl.atomlist
        if len(al.cell) != 6 or not all(eqv(al.cell[i], T.val(cellt[i])) for i in range(6)):
            bad.append('cell')
        if al.sgname != ('P21/c' if nconf % 2 else 'Pnma'):
            bad.append('sgname %r' % al.sgname)
        if len(al.atom) != 2:
            bad.append('number of atoms %d' % len(al.atom))
        for i, a in enumerate(al.atom[:2]):
            if a.label != labels[i]:
                bad.append('label')
            if a.atomtype != types[i].upper():
                bad.append('atomtype %r' % a.atomtype)
            if len(a.pos) != 3 or not all(eqv(a.pos[j], T.val(xyz[i][j])) for j in range(3)):
                bad.append('pos of atom %d' % i)
            c8 = 8 * math.pi ** 2
            if adp is None:
                if a.adp_type is not None or not eqv(a.adp, 0.0):
                    bad.append('adp for absent type: %r %r' % (a.adp_type, a.adp))
            elif adp in ('Uiso', 'Biso'):
                want = T.val(iso[i]) if adp == 'Uiso' else T.val(iso[i]) / c8
                if a.adp_type != 'Uiso' or not eqv(a.adp, want):
                    bad.append('%s adp of atom %d' % (adp, i))
            else:
                j = ['O2', 'Fe1'].index(labels[i])
                want = [T.val(ani[ij][j]) if adp == 'Uani' else T.val(ani[ij][j]) / c8 for ij in ('11', '22', '33', '23', '13', '12')]
                if a.adp_type != 'Uani' or len(a.adp) != 6 or not all(eqv(x, y) for x, y in zip(a.adp, want)):
                    bad.append('%s tensor of atom %d (order 11,22,33,23,13,12; matched by label)' % (adp, i))
            if occ_present:
                if not eqv(a.occ, T.val(occ[i])):
                    bad.append('occupancy')
            elif not eqv(a.occ, 1.0):
                bad.append('default occupancy %r' % (a.occ,))
            if mkey:
                if not eqv(a.symmulti, T.val(mult[i])):
                    bad.append('multiplicity from key %s' % mkey)
            else:
                if not (isinstance(a.symmulti, tuple) and a.symmulti[0] == 'MULT'):
                    bad.append('multiplicity not computed')
                else:
                    cp, cs = calls[a.symmulti[1] - 1]
                    if cs != al.sgname or not all(eqv(cp[j], T.val(xyz[i][j])) for j in range(3)):
                        bad.append('multiplicity computed from the wrong position/space group')
        want_disp = {}
        if tloop == 'full':
            want_disp = {'FE': [T.val(disp['FE'][0]), T.val(disp['FE'][1])], el2: [T.val(disp[el2][0]), T.val(disp[el2][1])]}
        else:
            want_disp = {'FE': None, el2: None}
        if set(al.dispersion.keys()) != set(want_disp.keys()):
            bad.append('dispersion keys %s' % sorted(al.dispersion.keys()))
        else:
            for k, w in want_disp.items():
                g = al.dispersion[k]
                if (w is None) != (g is None) or (w is not None and not (eqv(g[0], w[0]) and eqv(g[1], w[1]))):
                    bad.append('dispersion of %s' % k)
        if bad:
            allbad.append('config adp=%s occ=%s mkey=%s tloop=%s: %s' % (adp, occ_present, mkey, tloop, ', '.join(bad[:4])))
    u.paths = nconf
    u.prove('C17/CIFread', [], z3.BoolVal(not allbad), replay=lambda m: replay_cif(allbad), detail='%d configurations x 2 atoms: every stored field is the intended file field' % nconf, sample=True)
    # remove_esd alone on a symbolic value with and without esd
    bl = structure.build_atomlist()
    t = T.num('v')
    ok = all(eqv(bl.remove_esd(t + e), T.val(t)) for e in ('', '(1)', '(123)', '(0)'))
    u.prove('C17/remove_esd', [], z3.BoolVal(ok), replay=lambda m: replay_cif(['remove_esd']), detail='remove_esd drops exactly the parenthesised part')


def replay_cif(allbad):
    """confirm on the real code with a concrete block of the first failing configuration"""
    from xfab import structure
    b = {'_cell_length_a': '5.1(2)', '_cell_length_b': '6.2', '_cell_length_c': '7.3(11)', '_cell_angle_alpha': '90', '_cell_angle_beta': '104.5(3)', '_cell_angle_gamma': '90',
         '_symmetry_space_group_name_H-M': 'P 21/c', '_atom_site_label': ['Fe1', 'O2'], '_atom_site_type_symbol': ['Fe', 'o'],
         '_atom_site_fract_x': ['0.1(4)', '0.2'], '_atom_site_fract_y': ['0.3', '0.4(1)'], '_atom_site_fract_z': ['0.5(2)', '0.6(7)'],
         '_atom_site_adp_type': ['Bani', 'Bani'], '_atom_site_aniso_label': ['O2', 'Fe1'], '_atom_site_symmetry_multiplicity': ['4', '4'],
         '_atom_type_symbol': ['O', 'Fe'], '_atom_type_scat_dispersion_real': ['0.01(1)', '0.35'], '_atom_type_scat_dispersion_imag': ['0.006', '0.84(3)']}
    for n, ij in enumerate(('11', '22', '33', '23', '13', '12')):
        b['_atom_site_aniso_B_' + ij] = ['%d.0(6)' % (n + 1), '%d.5' % (n + 1)]
    bad = []
    try:
        bl = structure.build_atomlist()
        bl.CIFread(cifblk=b)
        al = bl.atomlist
        c8 = 8 * math.pi ** 2
        if al.cell != [5.1, 6.2, 7.3, 90.0, 104.5, 90.0] or al.sgname != 'P21/c':
            bad.append('cell/sg %r %r' % (al.cell, al.sgname))
        a0 = al.atom[0]
        if a0.atomtype != 'FE' or a0.pos != [0.1, 0.3, 0.5] or a0.occ != 1.0 or a0.symmulti != 4.0:
            bad.append('atom0 %r %r %r %r' % (a0.atomtype, a0.pos, a0.occ, a0.symmulti))
        if not np.allclose(a0.adp, [x / c8 for x in (1.5, 2.5, 3.5, 4.5, 5.5, 6.5)]) or a0.adp_type != 'Uani':
            bad.append('atom0 adp %r' % (a0.adp,))
        if al.dispersion.get('FE') != [0.35, 0.84] or al.dispersion.get('O') != [0.01, 0.006]:
            bad.append('dispersion %r' % (al.dispersion,))
    except Exception as e:
        bad.append('exception %r' % (e,))
    return True if (bad or allbad) else False, {'kind': 'cif', 'symbolic': allbad[:3]}, '; '.join(bad[:3] + allbad[:2])


def pdb_lines(with_hetatm):
    """fixed-width PDB records with token fields (tokens padded to the column widths)"""
    def fw(t, w):
        return t.rjust(w)
    cell = [T.num('c') for _ in range(6)]
    cryst = 'CRYST1' + fw(cell[0], 9) + fw(cell[1], 9) + fw(cell[2], 9) + fw(cell[3], 7) + fw(cell[4], 7) + fw(cell[5], 7) + ' ' + 'P 1 21 1'.ljust(11) + '   2\n'
    S = [[T.num('s') for _ in range(4)] for _ in range(3)]
    scale = ['SCALE%d    ' % (i + 1) + ''.join(fw(S[i][j], 10) for j in range(3)) + '     ' + fw(S[i][3], 10) + '\n' for i in range(3)]
    atoms = []
    lines = [cryst] + scale
    for k in range(2):
        x, y, z, occ, bf = [T.num('p') for _ in range(5)]
        rec = ('HETATM' if (with_hetatm and k == 1) else 'ATOM  ')
        name = [' CA ', 'FE  '][k]
        elem = [' C', 'Fe'][k]
        ln = rec + '%5d ' % (k + 1) + name + ' ' + 'ALA A' + '%4d    ' % (k + 1) + fw(x, 8) + fw(y, 8) + fw(z, 8) + fw(occ, 6) + fw(bf, 6) + ' ' * 10 + elem + '\n'
        assert ln[30:38].strip() == x and ln[54:60].strip() == occ and ln[60:66].strip() == bf and ln[76:78] == elem, ln
        lines.append(ln)
        atoms.append({'x': x, 'y': y, 'z': z, 'occ': occ, 'b': bf, 'label': name.strip(), 'type': elem.strip().upper()})
    return lines, cell, S, atoms


def run_pdb(u, structure, calls):
    allbad = []
    nconf = 0
    for with_hetatm, sgfield, sgwant in ((False, 'P 1 21 1', 'p21'), (True, 'P 21 21 21', 'p212121'), (True, 'C 1 2/c 1', 'c2/c')):
        nconf += 1
        del calls[:]
        lines, cell, S, atoms = pdb_lines(with_hetatm)
        lines[0] = lines[0][:55] + sgfield.ljust(11) + lines[0][66:]

        class F:
            def readlines(s):
                return list(lines)
        structure.open = lambda fn, mode='r': F()
        bad = []
        try:
            bl = structure.build_atomlist()
            with patched(structure, extra={'float': stub_float}):
                bl.PDBread('mem.pdb')
        except Exception as e:
            allbad.append('PDB config %d: raised %r' % (nconf, e))
            continue
        finally:
            structure.__dict__.pop('open', None)
        al = bl.atomlist
        if len(al.cell) != 6 or not all(eqv(al.cell[i], T.val(cell[i])) for i in range(6)):
            bad.append('cell')
        if al.sgname != sgwant:
            bad.append('sgname %r (wanted %r)' % (al.sgname, sgwant))
        if len(al.atom) != 2:
            bad.append('atoms %d' % len(al.atom))
        for k, a in enumerate(al.atom[:2]):
            at = atoms[k]
            want = [zprox._z(T.val(S[i][0])) * zprox._z(T.val(at['x'])) + zprox._z(T.val(S[i][1])) * zprox._z(T.val(at['y'])) + zprox._z(T.val(S[i][2])) * zprox._z(T.val(at['z'])) + zprox._z(T.val(S[i][3])) for i in range(3)]
            got = [zprox._z(x) for x in a.pos]
            if len(got) != 3 or not all(z3.is_true(z3.simplify(g == w)) for g, w in zip(got, want)):
                st, _, _ = smt.solve([z3.Or([g != w for g, w in zip(got, want)])], timeout_s=10, cvc5_timeout_s=0, want_model=False)
                if st != 'unsat':
                    bad.append('fractional position of atom %d is not SCALE.[x,y,z,1]' % k)
            if a.label != at['label'] or a.atomtype != at['type']:
                bad.append('label/type %r %r' % (a.label, a.atomtype))
            if a.adp_type != 'Uiso' or not eqv(a.adp, T.val(at['b']) / (8 * math.pi ** 2)):
                bad.append('B to U conversion')
            if not eqv(a.occ, T.val(at['occ'])):
                bad.append('occupancy')
            if not (isinstance(a.symmulti, tuple) and a.symmulti[0] == 'MULT'):
                bad.append('multiplicity not computed')
            else:
                cp, cs = calls[a.symmulti[1] - 1]
                same = len(cp) == 3 and all(z3.is_true(z3.simplify(zprox._z(cp[j]) == zprox._z(a.pos[j]))) for j in range(3))
                if cs != al.sgname or not same:
                    bad.append('multiplicity computed from something else than the fractional position')
            if al.dispersion.get(at['type'], 'missing') is not None:
                bad.append('dispersion entry')
        if bad:
            allbad.append('PDB config %d (%s): %s' % (nconf, sgfield, ', '.join(bad[:4])))
    u.paths = nconf
    u.prove('C17/PDBread', [], z3.BoolVal(not allbad), replay=lambda m: replay_pdb(allbad), detail='%d PDB files x 2 atoms: every stored field is the intended column field' % nconf, sample=True)


def replay_pdb(allbad):
    import os
    import tempfile
    from xfab import structure
    txt = ('CRYST1   10.000   20.000   30.000  90.00 100.00  90.00 P 1 21 1      2\n'
           'SCALE1      0.100000  0.000000  0.017633        0.00000\nSCALE2      0.000000  0.050000  0.000000        0.00000\nSCALE3      0.000000  0.000000  0.033848        0.00000\n'
           'ATOM      1  CA  ALA A   1       1.000   2.000   3.000  0.50 15.79           C\n'
           'HETATM    2 FE   HEM A   2       5.000  10.000  15.000  1.00 23.69          Fe\n')
    fn = os.path.join(tempfile.mkdtemp(), 't.pdb')
    open(fn, 'w').write(txt)
    bad = []
    try:
        bl = structure.build_atomlist()
        bl.PDBread(fn)
        al = bl.atomlist
        if al.cell != [10.0, 20.0, 30.0, 90.0, 100.0, 90.0] or al.sgname != 'p21':
            bad.append('cell/sg %r %r' % (al.cell, al.sgname))
        a = al.atom[1]
        S = np.array([[0.1, 0, 0.017633, 0], [0, 0.05, 0, 0], [0, 0, 0.033848, 0]])
        if not np.allclose(a.pos, S @ np.array([5., 10., 15., 1.])) or a.atomtype != 'FE' or a.label != 'FE' or abs(a.adp - 23.69 / (8 * math.pi ** 2)) > 1e-12 or a.occ != 1.0:
            bad.append('atom %r %r %r %r %r' % (a.pos, a.atomtype, a.label, a.adp, a.occ))
        from xfab.structure import multiplicity
        if a.symmulti != multiplicity(a.pos, al.sgname):
            bad.append('multiplicity %r' % (a.symmulti,))
    except Exception as e:
        bad.append('exception %r' % (e,))
    return True if (bad or allbad) else False, {'kind': 'pdb', 'symbolic': allbad[:3]}, '; '.join(bad[:3] + allbad[:2])


def replay(rec):
    r = rec['replay']
    if r.get('kind') == 'pdb':
        ok, _, t = replay_pdb([])
    else:
        ok, _, t = replay_cif([])
    return ok, t + ' | symbolic run: %s' % (r.get('symbolic'),)
