"""C19 — parameter sets survive save/load and stay consistent under any call sequence."""
import itertools
from fractions import Fraction

import numpy as np
import z3

from vengine.field import Field, EngineError
from vengine.explore import Ctx, SymBool
from vengine import smt, zprox

META = {
    'explanation': 'Call sequences: the observers are compared with the dictionary model after EVERY call; a stored symbolic value used as a condition forks the sequence (value == 0 / != 0); update_yourself also gets concrete falsy values. '
                   'The real parameters class runs with (i) symbolic integer / real values (z3 terms) stored in its real dict, (ii) file I/O rebound to an '
                   'in-memory file, (iii) str(), float() and int() of symbolic values rebound to contract stubs: str(v) yields an opaque token; '
                   'int(token of an int v) = v; float(token of an int v) = D(v), the nearest binary64 (|D(v) - v| <= |v|/2^53, D(v) = v for |v| <= 2^53); '
                   'float(token of a float x) = x (repr round trip assumed), int of it raises ValueError; both raise ValueError for a non-numeric token.  '
                   'Save/load: for every symbolic value of each kind the loaded value equals the saved one and has the right Python type; hyphens in names '
                   'become underscores.  Call sequences: every sequence of up to 3 API calls (7 operations, names from a pool of 3, symbolic values) from '
                   'two initial objects is executed and compared with a plain-dictionary model; get_variable_values follows varylist order.',
    'functions': ['xfab.parameters.parameters.' + m for m in ('addpar', 'set', 'get', 'set_parameters', 'get_parameters', 'set_varylist', 'set_variable_values',
                                                              'get_variable_values', 'update_other', 'update_yourself', 'saveparameters', 'loadparameters', 'dumbtypecheck')]
                 + ['xfab.parameters.par.__init__'],
    'bounds': {'values': 'all integers, all reals standing for binary64 floats, opaque space-free non-numeric strings', 'sequences': 'length <= 3 (thorough: <= 4; property: <= 30) over 7 operations; longer histories only through the per-step comparison with the model',
               'names': 'pool a, b, c-d (hyphenated) for files; a, b, c for sequences'},
    'outside_claim': ['bit-exact float round trip through repr/float (assumed contract, C-level dtoa)', 'sequences longer than 3', 'strings containing blanks'],
    'stubs': ['open() -> in-memory file', 'str/float/int on symbolic values -> contract stubs (tokens)', 'logger -> no-op'],
    'assumptions': ['int(str(i)) == i', 'float(repr(x)) == x', 'float() of an integer literal rounds to nearest binary64'],
}


def units(tier):
    return [{'name': 'saveload', 'group': 'saveload'}, {'name': 'dumbtypecheck', 'group': 'dtc'}, {'name': 'sequences', 'group': 'seq', 'cost': 10}]


# ---- token machinery ----------------------------------------------------------------------------

class Tokens:
    def __init__(self):
        self.tab = {}

    def new(self, kind, val):
        t = '<%s%d>' % (kind, len(self.tab))
        self.tab[t] = (kind, val)
        return t

    def lookup(self, s):
        if isinstance(s, str):
            return self.tab.get(s.strip())
        return None


TOK = Tokens()
TWO53 = 2 ** 53


class SymVal(zprox.ZNum):
    """value stored in the parameters dict: a z3 term with a Python-type tag"""
    __slots__ = ('kind',)

    def __init__(self, t, kind):
        zprox.ZNum.__init__(self, t)
        self.kind = kind

    def __str__(self):
        return TOK.new(self.kind, self)
    __repr__ = __str__

    # Python's mixed int/float arithmetic converts the int operand to float first
    def _mixed(self, o):
        if isinstance(o, SymVal) and o.kind != self.kind:
            a = SymVal(nearest_double(self.t), 'float') if self.kind == 'int' else self
            b = SymVal(nearest_double(o.t), 'float') if o.kind == 'int' else o
            return a, b
        return None

    def __sub__(self, o):
        m = self._mixed(o)
        if m:
            return SymVal(m[0].t - m[1].t, 'float')
        r = zprox.ZNum.__sub__(self, o)
        return SymVal(r.t, self.kind) if isinstance(r, zprox.ZNum) else r

    def __abs__(self):
        return SymVal(z3.If(self.t >= 0, self.t, -self.t), self.kind)

    def is_integer(self):
        if self.kind == 'int':
            return True
        return SymBool(z3.IsInt(self.t))

    def __bool__(self):
        # truthiness of a stored value (`if value:`): in the call-sequence unit both outcomes are explored by re-running the sequence
        # (TRUTH[0] None = first run, record that it was asked; True/False = forced outcome: the value is an unconstrained fresh symbol,
        # so "value == 0" and "value != 0" are both satisfiable)
        if TRUTH[0] is None:
            TRUTH_ASKED[0] = True
            return True
        return TRUTH[0]


TRUTH = [None]
TRUTH_ASKED = [False]


DFUN = z3.Function('D', z3.IntSort(), z3.RealSort())


def nearest_double(vt):
    """nearest binary64 of an integer term: an uninterpreted function (same argument, same result) with the rounding contract:
    exact up to 2^53, relative error at most 2^-53 beyond"""
    d = DFUN(vt)
    vr = z3.ToReal(vt)
    av = z3.If(vr >= 0, vr, -vr)
    CONTRACT.append(z3.If(z3.And(vt <= TWO53, vt >= -TWO53), d == vr, z3.And(d - vr <= av / TWO53, vr - d <= av / TWO53)))
    return d


def stub_float(x):
    e = TOK.lookup(x)
    if e is None:
        if isinstance(x, zprox.ZNum):
            return x
        return float(x)
    kind, v = e
    if kind == 'int':
        return SymVal(nearest_double(v.t), 'float')
    if kind == 'float':
        return v
    raise ValueError('could not convert string to float: %r' % (x,))


def stub_int(x):
    if isinstance(x, SymVal):
        if x.kind == 'int':
            return x
        t = x.t
        return SymVal(z3.If(t >= 0, z3.ToInt(t), -z3.ToInt(-t)), 'int')      # int(float) truncates towards zero
    e = TOK.lookup(x)
    if e is None:
        return int(x)
    kind, v = e
    if kind == 'int':
        return v
    raise ValueError('invalid literal for int() with base 10: %r' % (x,))


CONTRACT = []


class MemFS:
    def __init__(self):
        self.files = {}

    def open(self, name, mode='r'):
        fs = self

        class F:
            def __init__(s):
                s.buf = []

            def write(s, t):
                s.buf.append(t)

            def close(s):
                if 'w' in mode:
                    fs.files[name] = ''.join(s.buf)

            def readlines(s):
                return fs.files[name].splitlines(True)
        return F()


def run_unit(u, desc, tier, seed):
    from xfab import parameters as P
    smt.INPROC = True
    group = desc['group']
    saved = {k: getattr(P, k, None) for k in ('open', 'float', 'int', 'str')}
    had = {k: hasattr(P, k) for k in saved}
    fs = MemFS()
    P.open, P.float, P.int = fs.open, stub_float, stub_int
    try:
        if group == 'saveload':
            run_saveload(u, P, fs)
        elif group == 'dtc':
            run_dtc(u, P)
        else:
            run_sequences(u, P, tier)
    finally:
        for k, v in saved.items():
            if had[k]:
                setattr(P, k, v)
            else:
                try:
                    delattr(P, k)
                except AttributeError:
                    pass


def py_type_ok(val, kind):
    """the loaded object must be of the Python type of the saved one"""
    if kind == 'int':
        return isinstance(val, SymVal) and val.kind == 'int'
    if kind == 'float':
        return isinstance(val, SymVal) and val.kind == 'float'
    return isinstance(val, str)


def run_saveload(u, P, fs):
    f = Field(['dummy'], naux=0)
    for kind in ('int', 'float', 'str'):
        for name in ('a', 'b_x', 'c-d'):
            ctx = Ctx(f)
            del CONTRACT[:]
            if kind == 'int':
                v = SymVal(z3.Int('v'), 'int')
            elif kind == 'float':
                v = SymVal(z3.Real('x'), 'float')
            else:
                v = TOK.new('str', None)          # opaque space-free non-numeric string

            def body():
                p = P.parameters()
                p.parameters[name] = v           # a value of that type is present (set() semantics are the sequences' subject)
                p.saveparameters('file.par')
                q = P.parameters()
                q.loadparameters('file.par')
                return q.get_parameters()
            leaves, exh = ctx.explore(body, max_paths=16)
            for leaf in leaves:
                u.paths += 1
                pre = list(CONTRACT) + leaf['pc']
                key = 'C19/saveload/%s-value/name=%s' % (kind, name)
                if leaf['exception'] is not None:
                    u.prove(key, pre, z3.BoolVal(False), replay=mk_replay(kind, name), detail='raised %r' % (leaf['exception'],))
                    continue
                d = leaf['result']
                want_name = name.replace('-', '_')
                if list(d.keys()) != [want_name]:
                    u.prove(key + '/names', pre, z3.BoolVal(False), replay=mk_replay(kind, name), detail='loaded names %s, expected [%s]' % (list(d.keys()), want_name))
                    continue
                got = d[want_name]
                if kind == 'str':
                    goal = z3.BoolVal(got == v)
                elif not py_type_ok(got, kind):
                    u.prove(key + '/type', pre, z3.BoolVal(False), replay=mk_replay(kind, name),
                            detail='loaded value has Python type %s, saved %s' % (getattr(got, 'kind', type(got).__name__), kind))
                    continue
                else:
                    goal = (got.t == v.t)
                u.prove(key, pre, goal, replay=mk_replay(kind, name), detail='load(save({%s: %s value})) gives back the same value and type' % (name, kind), sample=(name == 'c-d'))


def mk_replay(kind, name):
    def replay(model):
        import os
        import tempfile
        import importlib
        from xfab import parameters as P
        saved = {k: P.__dict__.pop(k) for k in ('open', 'float', 'int') if k in P.__dict__}
        try:
            if kind == 'int':
                val = int(model.get('v', 0))
            elif kind == 'float':
                val = float(model.get('x', 0.5))
            else:
                val = 'abc'
            p = P.parameters()
            p.parameters[name] = val
            fn = os.path.join(tempfile.mkdtemp(), 'x.par')
            p.saveparameters(fn)
            q = P.parameters()
            q.loadparameters(fn)
            got = q.get_parameters().get(name.replace('-', '_'), None)
            bad = (type(got) is not type(val)) or got != val
            return bad, {'kind': kind, 'name': name, 'value': repr(val)}, 'saved %r (%s), loaded %r (%s)' % (val, type(val).__name__, got, type(got).__name__)
        finally:
            P.__dict__.update(saved)
    return replay


def run_dtc(u, P):
    """numeric-looking strings: int when they parse as int, else float; others stripped strings"""
    f = Field(['dummy'], naux=0)
    for kind in ('int', 'float', 'str'):
        ctx = Ctx(f)
        del CONTRACT[:]
        if kind == 'int':
            v = SymVal(z3.Int('v'), 'int')
            tok = ' ' + str(v) + '\n'
        elif kind == 'float':
            v = SymVal(z3.Real('x'), 'float')
            tok = str(v) + ' '
        else:
            tok = '  ' + TOK.new('str', None) + '\n'

        def body():
            p = P.parameters()
            p.set_parameters({'k': tok, 'other': 7})
            return p.get_parameters()
        leaves, exh = ctx.explore(body, max_paths=16)
        for leaf in leaves:
            u.paths += 1
            pre = list(CONTRACT) + leaf['pc']
            key = 'C19/dumbtypecheck/%s-looking-string' % kind
            if leaf['exception'] is not None:
                u.prove(key, pre, z3.BoolVal(False), replay=mk_replay(kind, 'k'), detail='raised %r' % (leaf['exception'],))
                continue
            got = leaf['result']['k']
            if kind == 'str':
                goal = z3.BoolVal(got == tok.strip() and leaf['result']['other'] == 7)
            elif not py_type_ok(got, kind):
                u.prove(key + '/type', pre, z3.BoolVal(False), replay=mk_replay(kind, 'k'),
                        detail='%s-looking string became %s' % (kind, getattr(got, 'kind', type(got).__name__)))
                continue
            else:
                goal = got.t == v.t
            u.prove(key, pre, goal, replay=mk_replay(kind, 'k'), detail='a %s-looking string becomes the %s it denotes' % (kind, 'stripped string' if kind == 'str' else kind), sample=True)


# ---- call sequences -------------------------------------------------------------------------------

NAMES = ['a', 'b', 'c']


class Other:
    pass


def run_sequences(u, P, tier='quick'):
    """all sequences of up to 3 API calls; values are fresh symbolic integers; model = plain dict + lists"""
    cnt = [0]

    def fresh():
        cnt[0] += 1
        return SymVal(z3.Int('s%d' % cnt[0]), 'int')
    ops = []
    for nm in NAMES:
        ops.append(('set', nm))
        ops.append(('addpar', nm, True, True))
        ops.append(('addpar', nm, False, False))
    ops += [('set_parameters', ('a', 'b')), ('set_parameters', ('c',)), ('set_varylist', ('a', 'b')), ('set_varylist', ('b', 'a')), ('set_varylist', ('c', 'a')),
            ('set_variable_values',), ('update_other',), ('update_yourself',), ('update_yourself', 0), ('update_yourself', 0.0), ('update_yourself', '')]
    inits = [lambda: P.parameters(), lambda: _init_full(P, fresh)]
    nseq = 0
    bad = []
    for ii, mk in enumerate(inits):
        for L in ((1, 2, 3) if tier == 'quick' else (1, 2, 3, 4)):
            for seq in itertools.product(ops, repeat=L):
                if L >= 3 and ii == 0 and seq[0][0] not in ('addpar',):
                    continue        # from the empty object only sequences that start by adding a parameter are interesting at length 3
                nseq += 1
                for truth in (None, False):
                    if truth is False and not TRUTH_ASKED[0]:
                        break           # no stored value was used as a condition on the first run: nothing to fork on
                    TRUTH[0] = truth
                    if truth is None:
                        TRUTH_ASKED[0] = False
                    p = mk()
                    model = {'d': dict(p.parameters), 'vary': list(p.varylist), 'varl': list(p.variable_list)}
                    ok = True
                    mism = None
                    for op in seq:
                        try:
                            ok = apply_both(P, p, model, op, fresh)
                        except AssertionError:
                            ok = 'assert'
                        if ok is not True:
                            break
                        # the observers run after EVERY call, not only at the end: a getter must not change what later calls return
                        mism = compare(p, model)
                        if mism:
                            break
                    if ok == 'assert':
                        break           # precondition of the API (assert) not met: sequence not admissible
                    if mism:
                        bad.append('%s%s: %s' % (seq, ' [stored values falsy]' if truth is False else '', mism))
                        break
                TRUTH[0] = None
                if len(bad) > 5:
                    break
    u.paths = nseq
    u.prove('C19/sequences', [], z3.BoolVal(not bad), replay=lambda m: (True, {'kind': 'seq', 'example': bad[:1]}, '; '.join(bad[:2])),
            detail='%d call sequences (length <= 3, two initial objects): object agrees with the dictionary model after every sequence' % nseq, sample=True)
    u.samples.append({'sequences_run': nseq, 'example': str(ops[:4])})


def _init_full(P, fresh):
    p = P.parameters()
    for nm in NAMES:
        p.addpar(P.par(nm, fresh(), vary=(nm != 'c'), can_vary=True))
    return p


def same(x, y):
    if isinstance(x, zprox.ZNum) and isinstance(y, zprox.ZNum):
        return z3.is_true(z3.simplify(x.t == y.t))
    return x is y or (not isinstance(x, zprox.ZNum) and not isinstance(y, zprox.ZNum) and x == y)


def compare(p, model):
    d = p.get_parameters()
    if set(d.keys()) != set(model['d'].keys()):
        return 'keys %s vs model %s' % (sorted(d.keys()), sorted(model['d'].keys()))
    for k in d:
        if not same(d[k], model['d'][k]) or not same(p.get(k), model['d'][k]):
            return 'value of %s' % k
    if list(p.varylist) != model['vary']:
        return 'varylist %s vs %s' % (p.varylist, model['vary'])
    vv = p.get_variable_values()
    want = [model['d'][n] for n in model['vary']]
    if len(vv) != len(want) or not all(same(a, b) for a, b in zip(vv, want)):
        return 'get_variable_values does not follow varylist order'
    return None


def apply_both(P, p, model, op, fresh):
    kind = op[0]
    if kind == 'set':
        v = fresh()
        p.set(op[1], v)
        model['d'][op[1]] = v
    elif kind == 'addpar':
        v = fresh()
        p.addpar(P.par(op[1], v, vary=op[2], can_vary=op[3]))
        model['d'][op[1]] = v
        if op[2] and op[1] not in model['vary']:
            model['vary'].append(op[1])
        if op[3] and op[1] not in model['varl']:
            model['varl'].append(op[1])
    elif kind == 'set_parameters':
        dd = {n: fresh() for n in op[1]}
        p.set_parameters(dd)
        model['d'].update(dd)
    elif kind == 'set_varylist':
        vl = list(op[1])
        if not all(n in model['d'] and n in model['varl'] for n in vl):
            try:
                p.set_varylist(vl)
            except AssertionError:
                raise
            raise AssertionError()
        p.set_varylist(vl)
        model['vary'] = vl
    elif kind == 'set_variable_values':
        vals = [fresh() for _ in model['vary']]
        p.set_variable_values(vals)
        for n, v in zip(model['vary'], vals):
            model['d'][n] = v
    elif kind == 'update_other':
        o = Other()
        o.a = 'old'
        o.zzz = 1
        p.update_other(o)
        if 'a' in model['d'] and not same(o.a, model['d']['a']):
            model['d']['__bad__'] = 1
        if hasattr(o, 'b') and 'b' in model['d']:
            model['d']['__bad__'] = 1
    elif kind == 'update_yourself':
        o = Other()
        v = fresh() if len(op) == 1 else op[1]
        o.b = v
        p.update_yourself(o)
        if 'b' in model['d']:
            model['d']['b'] = v
    return True


def replay(rec):
    r = rec['replay']
    if r.get('kind') == 'seq':
        return True, 'sequence mismatch recorded: %s' % r.get('example')
    ok, _, t = mk_replay(r['kind'], r['name'])({'v': int(r['value']) if r['kind'] == 'int' else 0, 'x': float(r['value']) if r['kind'] == 'float' else 0.5})
    return ok, t
